"""Small-document generator, renderer and independent oracles for the bounded stand-ins (labelled *bounded* in the
evidence, never counted as proved).  Documents are trees

    ('map', [(key, node), ...], tag) | ('seq', [node, ...], tag) | ('leaf', value, tag)

with at most one awesomeyaml tag per node (None, 'force', 'weak', 'del', 'merge', 'new', 'notnew', 'unsafe').
Bound (stated in every evidence record): depth <= 3, width <= 3, keys from a 5-element pool, <= 4 stages."""
import itertools
import random

KEYS = ['a', 'b', 'x', 'q', '_u']
LEAVES = [0, 1, 2, 'v', True, None, 1.5, '12', 'yes']      # incl. text that looks like another YAML type (must stay text when quoted)


def leaf(v, tag=None):
    return ('leaf', v, tag)


def mp(items, tag=None):
    return ('map', list(items), tag)


def sq(items, tag=None):
    return ('seq', list(items), tag)


def render_scalar(v):
    if v is None:
        return 'null'
    if v is True:
        return 'true'
    if v is False:
        return 'false'
    if isinstance(v, str):
        return "'" + v + "'"
    return repr(v)


def render(t, top=True):
    kind, body, tag = t
    pre = ('!' + tag + ' ') if tag else ''
    if kind == 'leaf':
        return pre + render_scalar(body)
    if kind == 'seq':
        return pre + '[' + ', '.join(render(x, False) for x in body) + ']'
    return pre + '{' + ', '.join(f'{render_scalar(k) if not isinstance(k, str) else k}: {render(v, False)}' for k, v in body) + '}'


def plain(t):
    kind, body, tag = t
    if kind == 'leaf':
        return body
    if kind == 'seq':
        return [plain(x) for x in body]
    return {k: plain(v) for k, v in body}


def strip_tags(t):
    kind, body, tag = t
    if kind == 'leaf':
        return (kind, body, None)
    if kind == 'seq':
        return (kind, [strip_tags(x) for x in body], None)
    return (kind, [(k, strip_tags(v)) for k, v in body], None)


def wrap(t, key):
    return mp([(key, t)])


class Gen:
    def __init__(self, rng, tags=(), keys=KEYS, leaves=LEAVES, p_tag=0.3, allow_seq=True, int_keys=False):
        self.r, self.tags, self.keys, self.leaves, self.p_tag, self.allow_seq, self.int_keys = rng, list(tags), list(keys), list(leaves), p_tag, allow_seq, int_keys
        self.allow_remove_idiom = False
        self.no_prio_in_seq = False

    def tag(self, kinds):
        if self.tags and self.r.random() < self.p_tag:
            c = [t for t in self.tags if t in kinds]
            if c:
                return self.r.choice(c)
        return None

    def node(self, depth, in_seq=False):
        r = self.r
        k = r.random()
        if in_seq and self.no_prio_in_seq:
            # elements of sequences carry no tags in this family (see KNOWN_FINDINGS: protected elements inside a replaced list)
            saved, self.tags = self.tags, [t for t in self.tags if t not in ('force', 'weak', 'del', 'merge')]
            try:
                return self.node(depth, in_seq=False)
            finally:
                self.tags = saved
        if depth <= 0 or k < 0.45:
            return leaf(r.choice(self.leaves), self.tag(('force', 'weak', 'unsafe', 'new')))
        if k < 0.8 or not self.allow_seq:
            return self.map(depth)
        items = [self.node(depth - 1, in_seq=True) for _ in range(r.randint(0, 3))]
        tg = self.tag(('del', 'merge', 'unsafe', 'new') if self.no_prio_in_seq else ('force', 'weak', 'del', 'merge', 'unsafe', 'new'))
        if tg == 'del' and not items and not self.allow_remove_idiom:
            tg = None       # `!del []` / `!del {}` is the explicit remove-this-key idiom (intentionally not idempotent)
        return sq(items, tg)

    def map(self, depth, top=False):
        r = self.r
        n = r.randint(0 if not top else 1, 3)
        pool = self.keys + ([0, 1] if self.int_keys else [])
        keys = r.sample(pool, min(n, len(pool)))
        tg = None if top else self.tag(('force', 'weak', 'del', 'merge', 'unsafe', 'new'))
        if tg == 'del' and not keys and not self.allow_remove_idiom:
            tg = None
        return mp([(k, self.node(depth - 1)) for k in keys], tg)


# ----------------------------------------------------------------------------------------------- oracles
class MergeErr(Exception):
    pass


def upd(a, b):
    """C02: right-biased recursive update of plain data (the statement of the property, not the code)"""
    if isinstance(a, dict) and isinstance(b, dict):
        out = dict(a)
        for k, v in b.items():
            out[k] = upd(a[k], v) if k in a else v
        return out
    if isinstance(a, list) and isinstance(b, dict):
        out = list(a)
        for k in b:
            if not isinstance(k, int) or isinstance(k, bool) or not (-len(a) <= k < len(a)):
                raise MergeErr(k)
        for k, v in b.items():
            out[k] = upd(out[k], v)
        return out
    return b


def leaf_paths(t, prefix=(), inherited=None):
    """C03: (path, value, effective priority) of every leaf; a priority tag on a container applies to everything below"""
    kind, body, tag = t
    pr = inherited
    if pr is None and tag in ('force', 'weak'):
        pr = 1 if tag == 'force' else -1
    if kind == 'leaf':
        yield prefix, body, (pr or 0)
    elif kind == 'map':
        for k, v in body:
            yield from leaf_paths(v, prefix + (k,), pr)
    else:
        for i, v in enumerate(body):
            yield from leaf_paths(v, prefix + (i,), pr)


def shape(t):
    kind, body, tag = t
    if kind == 'leaf':
        return 'L'
    if kind == 'map':
        return ('M', tuple((k, shape(v)) for k, v in body))
    return ('S', tuple(shape(v) for v in body))


def set_path(d, path, v):
    for p in path[:-1]:
        d = d[p]
    d[path[-1]] = v


def get_path(d, path):
    for p in path:
        d = d[p]
    return d


def priority_fold(docs):
    """C03 oracle for documents of identical shape (mappings only): per leaf path the highest priority wins, the latest among equals"""
    res = plain(docs[0])
    best = {}
    for i, d in enumerate(docs):
        for path, v, pr in leaf_paths(d):
            cur = best.get(path)
            if cur is None or pr >= cur[0]:
                best[path] = (pr, v)
    for path, (pr, v) in best.items():
        set_path(res, path, v)
    return res
