"""ConfigNodeMeta.__call__ (type deduction / adoption of an existing node) and priority inheritance (C03, C07)."""
import z3
from pyvc import sym
from pyvc.sym import Val, is_none, is_bool, is_int, is_ref, b_of, i_of, r_of, mk_str, MapT
from pyvc.contract import Contract, P, Raises, Loop
from pyvc.values import SV, ClassV, TupleV
from . import spec as S

N = 'awesomeyaml/nodes/node.py::'
C = 'awesomeyaml/nodes/composed.py::'
INHERIT = ['priority', 'implicit_delete', 'implicit_allow_new', 'implicit_safe', 'pyyaml_node']
SHAPES = {
    'none': [],
    'priority': ['priority'],
    'child-kwargs': ['implicit_delete', 'implicit_allow_new', 'implicit_safe'],
    'child-kwargs-keep-unsafe': ['implicit_delete', 'implicit_allow_new'],
    'all': ['priority', 'implicit_delete', 'implicit_allow_new', 'implicit_safe', 'pyyaml_node'],
    'pyyaml': ['pyyaml_node'],
}


def kw_valid(t, k):
    if k == 'priority':
        return z3.Or(is_none(t), z3.And(is_int(t), i_of(t) >= -1, i_of(t) <= 1))
    if k.startswith('implicit_'):
        return S.opt_bool(t)
    return z3.BoolVal(True)


def register(R):
    def make(shape, keys):
        def setup(it, fr, sc):
            # **kwargs of this shape with symbolic values
            r = it.run.alloc('dict')
            m = MapT.empty()
            vals = {}
            for k in keys:
                t = it.run.fresh('kw_' + k)
                it.run.assume(kw_valid(t, k))
                vals[k] = t
                m = it.map_set_simpl(m, mk_str(k), t)
            it.heap.put_m(r, m)
            fr.loc['kwargs'] = SV(sym.mk_ref(r), hint=frozenset(['dict']))
            fr.loc['cls'] = ClassV('ConfigNode')
            fr.loc['args'] = TupleV([it.spec_args['value']])
            it.spec_extra['kw'] = vals

        def req(c):
            v = c.ref('value')
            return [('valid', S.valid_flags(c.pre, v)), ('wft-axiom', S.wft_axiom(c.eng, c.pre), {'static': S.STRUCT_FIELDS}), ('wft', S.WFT(v)), ('desc-valid', S.desc_valid(c.pre, v))]

        def ens(c):
            v = c.ref('value')
            kw = c.x['kw']
            out = [('result-is-the-node-itself', c.rt == c['value'])]
            for k in INHERIT:
                f = '_' + k
                pre_, post_ = c.pre.get(f, v), c.post.get(f, v)
                if k in kw:
                    if k == 'implicit_safe':
                        out.append(('C07.implicit-unsafe-never-reset-on-adoption', z3.If(pre_ == sym.FALSE, post_ == sym.FALSE, post_ == kw[k])))
                    else:
                        out.append((f'adopted-node-takes-{k}', post_ == kw[k]))
                else:
                    out.append((f'{k}-untouched-when-not-given', post_ == pre_))
            x = z3.Int('!ax')
            if 'priority' in kw:
                out.append(('C03.priority-applies-to-everything-below',
                            S.FA([x], z3.Implies(S.Desc(v, x), c.post.get('_priority', x) == kw['priority']), patterns=[S.Desc(v, x)])))
            out.append(('C07.adoption-never-makes-anything-safe', S.FA([x], z3.Implies(z3.And(x != v, S.safe(c.post, x)), S.safe(c.pre, x)))))
            return out

        def mods(c):
            v = c.ref('value')
            out = [('_' + k, [v]) for k in INHERIT if not k.startswith('implicit_') and k != 'priority']
            out += [(f, (lambda r, v=v: z3.Or(r == v, S.Desc(v, r)))) for f in S.IMPLICIT + ['_priority']]
            return out

        def witness_gen(g, w):
            r = g.rng
            dom = {'priority': [None, -1, 0, 1], 'pyyaml_node': [None]}
            w['kw'] = {k: r.choice(dom.get(k, [None, True, False])) for k in keys}
            return w

        def replay_call(b, args, w):
            from awesomeyaml.nodes.node import ConfigNode
            return ConfigNode(args['value'], **w['kw'])

        def replay_extra(b, args, w, tv):
            return {'kw': {k: tv(v) for k, v in w['kw'].items()}}

        return Contract(N + 'ConfigNodeMeta.__call__', [P.node('value', 'ConfigNode')], name='adopt-' + shape,
                        requires=req, ensures=[('adopt', ens)], modifies=mods, props=('C03', 'C07'),
                        opts={'setup': setup, 'verify_only': True, 'bind_partial': True, 'witness_gen': witness_gen,
                              'replay_call': replay_call, 'replay_extra': replay_extra, 'no_model_replay': True},
                        note='type deduction applied to an existing node: flags given as keyword arguments are pushed into it (and below it)')

    for shape, keys in SHAPES.items():
        R.add(make(shape, keys))

    # ---- _propagate_priority (added by the fix for C03) --------------------------------------------
    def pp_req(c):
        s = c.ref('self')
        return [('valid', S.valid_flags(c.pre, s)), ('wft-axiom', S.wft_axiom(c.eng, c.pre), {'static': S.STRUCT_FIELDS}), ('wft', S.WFT(s)),
                ('desc-valid', S.desc_valid(c.pre, s))]

    def pp_ens(c):
        s = c.ref('self')
        x = z3.Int('!px')
        return [('C03.everything-below-gets-the-priority', S.FA([x], z3.Implies(S.Desc(s, x), c.post.get('_priority', x) == c.pre.get('_priority', s)), patterns=[S.Desc(s, x)]))]

    def pp_inv(c, L):
        s = c.ref('self')
        m = S.children(L.entry_heap, s)
        k = z3.Const('!pk', Val)
        x = z3.Int('!px')
        ch = r_of(m.get(k))
        pos = z3.Select(m.pos, k)
        P0 = L.entry_heap
        return [('frame', S.FA([x], z3.Implies(z3.Not(S.Desc(s, x)), L.heap.get('_priority', x) == P0.get('_priority', x)))),
                ('valid', S.desc_valid(L.heap, s)),
                ('done', S.FA([k], z3.Implies(z3.And(m.has(k), pos < L.i), L.heap.get('_priority', ch) == P0.get('_priority', s)), patterns=[m.get(k)])),
                ('done-below', S.FA([k, x], z3.Implies(z3.And(m.has(k), pos < L.i, S.Desc(ch, x)), L.heap.get('_priority', x) == P0.get('_priority', s)),
                                         patterns=[z3.MultiPattern(m.get(k), S.Desc(ch, x))]))]

    R.add(Contract(C + 'ComposedNode._propagate_priority', [P.node('self', 'ComposedNode')], requires=pp_req,
                   modifies=lambda c: [('_priority', (lambda r, c=c: S.Desc(c.ref('self'), r)))],
                   ensures=[('pp', pp_ens), ('descendants-stay-valid', lambda c: S.desc_valid(c.post, c.ref('self')))], props=('C03',), loops={0: Loop(pp_inv, mod_locals=['child'], mod_fields=['_priority'])},
                   ))
    R.inline_keys.add(N + 'ConfigNode._propagate_priority')
