"""ConfigNodeMeta.__call__ (type deduction / adoption of an existing node) and priority inheritance (C03, C07)."""
import z3
from pyvc import sym
from pyvc.sym import Val, is_none, is_bool, is_int, is_ref, b_of, i_of, r_of, mk_str, MapT
from pyvc.contract import Contract, P, Raises, Loop
from pyvc.values import SV, ClassV, TupleV
from . import spec as S

N = 'awesomeyaml/nodes/node.py::'
C = 'awesomeyaml/nodes/composed.py::'
INHERIT = ['priority', 'implicit_delete', 'implicit_allow_new', 'implicit_safe', 'pyyaml_node']
SHAPES = {
    'none': [],
    'priority': ['priority'],
    'child-kwargs': ['implicit_delete', 'implicit_allow_new', 'implicit_safe'],
    'child-kwargs-keep-unsafe': ['implicit_delete', 'implicit_allow_new'],
    'all': ['priority', 'implicit_delete', 'implicit_allow_new', 'implicit_safe', 'pyyaml_node'],
    'pyyaml': ['pyyaml_node'],
}


def kw_valid(t, k):
    if k == 'priority':
        return z3.Or(is_none(t), z3.And(is_int(t), i_of(t) >= -1, i_of(t) <= 1))
    if k.startswith('implicit_'):
        return S.opt_bool(t)
    return z3.BoolVal(True)


def register(R):
    def make(shape, keys):
        def setup(it, fr, sc):
            # **kwargs of this shape with symbolic values
            r = it.run.alloc('dict')
            m = MapT.empty()
            vals = {}
            for k in keys:
                t = it.run.fresh('kw_' + k)
                it.run.assume(kw_valid(t, k))
                vals[k] = t
                m = it.map_set_simpl(m, mk_str(k), t)
            it.heap.put_m(r, m)
            fr.loc['kwargs'] = SV(sym.mk_ref(r), hint=frozenset(['dict']))
            fr.loc['cls'] = ClassV('ConfigNode')
            fr.loc['args'] = TupleV([it.spec_args['value']])
            it.spec_extra['kw'] = vals

        def req(c):
            v = c.ref('value')
            return [('valid', S.valid_flags(c.pre, v)), S.subwf_clause(c.eng, c.pre, v), ('desc-valid', S.desc_valid(c.pre, v))]

        def ens(c):
            v = c.ref('value')
            kw = c.x['kw']
            out = [('result-is-the-node-itself', c.rt == c['value'])]
            for k in INHERIT:
                f = '_' + k
                pre_, post_ = c.pre.get(f, v), c.post.get(f, v)
                if k in kw:
                    if k == 'implicit_safe':
                        out.append(('C07.implicit-unsafe-never-reset-on-adoption', z3.If(pre_ == sym.FALSE, post_ == sym.FALSE, post_ == kw[k])))
                    else:
                        out.append((f'adopted-node-takes-{k}', post_ == kw[k]))
                else:
                    out.append((f'{k}-untouched-when-not-given', post_ == pre_))
            x = z3.Int('!ax')
            if 'priority' in kw:
                out.append(('C03.priority-applies-to-everything-below',
                            S.FA([x], z3.Implies(S.Desc(v, x), c.post.get('_priority', x) == kw['priority']), patterns=[S.Desc(v, x)])))
            out.append(('C07.adoption-never-makes-anything-safe', S.FA([x], z3.Implies(z3.And(x != v, S.safe(c.post, x)), S.safe(c.pre, x)))))
            return out

        def mods(c):
            v = c.ref('value')
            out = [('_' + k, [v]) for k in INHERIT if not k.startswith('implicit_') and k != 'priority']
            out += [(f, (lambda r, v=v: z3.Or(r == v, S.Desc(v, r)))) for f in S.IMPLICIT + ['_priority']]
            return out

        def witness_gen(g, w):
            r = g.rng
            dom = {'priority': [None, -1, 0, 1], 'pyyaml_node': [None]}
            w['kw'] = {k: r.choice(dom.get(k, [None, True, False])) for k in keys}
            return w

        def replay_call(b, args, w):
            from awesomeyaml.nodes.node import ConfigNode
            return ConfigNode(args['value'], **w['kw'])

        def replay_extra(b, args, w, tv):
            return {'kw': {k: tv(v) for k, v in w['kw'].items()}}

        return Contract(N + 'ConfigNodeMeta.__call__', [P.node('value', 'ConfigNode')], name='adopt-' + shape,
                        requires=req, ensures=[('adopt', ens)], modifies=mods, props=('C03', 'C07'),
                        opts={'setup': setup, 'verify_only': True, 'bind_partial': True, 'witness_gen': witness_gen,
                              'replay_call': replay_call, 'replay_extra': replay_extra, 'no_model_replay': True},
                        note='type deduction applied to an existing node: flags given as keyword arguments are pushed into it (and below it)')

    for shape, keys in SHAPES.items():
        R.add(make(shape, keys))

    # ---- _propagate_priority (added by the fix for C03) --------------------------------------------
    def pp_req(c):
        s = c.ref('self')
        return [('valid', S.valid_flags(c.pre, s)), S.subwf_clause(c.eng, c.pre, s),
                ('desc-valid', S.desc_valid(c.pre, s))]

    def pp_ens(c):
        s = c.ref('self')
        x = z3.Int('!px')
        return [('C03+C04.everything-below-gets-the-priority', S.FA([x], z3.Implies(S.Desc(s, x), c.post.get('_priority', x) == c.pre.get('_priority', s)), patterns=[S.Desc(s, x)]))]

    def pp_inv(c, L):
        s = c.ref('self')
        m = S.children(L.entry_heap, s)
        k = z3.Const('!pk', Val)
        x = z3.Int('!px')
        ch = r_of(m.get(k))
        pos = z3.Select(m.pos, k)
        P0 = L.entry_heap
        return [('frame', S.FA([x], z3.Implies(z3.Not(S.Desc(s, x)), L.heap.get('_priority', x) == P0.get('_priority', x)))),
                ('valid', S.desc_valid(L.heap, s)),
                ('done', S.FA([k], z3.Implies(z3.And(m.has(k), pos < L.i), L.heap.get('_priority', ch) == P0.get('_priority', s)), patterns=[m.get(k)])),
                ('done-below', S.FA([k, x], z3.Implies(z3.And(m.has(k), pos < L.i, S.Desc(ch, x)), L.heap.get('_priority', x) == P0.get('_priority', s)),
                                         patterns=[z3.MultiPattern(m.get(k), S.Desc(ch, x))]))]

    R.add(Contract(C + 'ComposedNode._propagate_priority', [P.node('self', 'ComposedNode')], requires=pp_req,
                   modifies=lambda c: [('_priority', (lambda r, c=c: S.Desc(c.ref('self'), r)))],
                   ensures=[('pp', pp_ens), ('descendants-stay-valid', lambda c: S.desc_valid(c.post, c.ref('self')))], props=('C03', 'C04'), loops={0: Loop(pp_inv, mod_locals=['child'], mod_fields=['_priority'])},
                   ))
    R.inline_keys.add(N + 'ConfigNode._propagate_priority')
    register_callee(R)


# ---------------------------------------------------------------------------------------------------------------
# callee-facing contract of `ConfigNode(value, **flags)` (type deduction).  The branch for an existing node is the
# one proved above (adopt-*); the branch that wraps a plain Python value in a new node is ASSUMED (object creation
# through type.__call__ / ConfigScalarMeta class synthesis is outside the subset) and listed as such in the evidence.
Content = z3.Function('Content', z3.IntSort(), Val)      # ghost: the plain value a freshly built node was made from


def _kw_of(c, it=None):
    """python dict name -> Val term of the (concrete-shape) **kwargs of this call"""
    kv = c.a['kwargs']
    m = c.pre.m(r_of(kv.t))
    n = sym.simp(m.len)
    out = {}
    for i in range(n.as_long()):
        k = sym.simp(z3.Select(m.keyat, i))
        out[sym.py_of_val(k)] = sym.simp(z3.Select(m.val, k))
    return out


def register_callee(R):
    def value_of(c):
        return c.a['args'].items[0].t

    def isnode(c):
        v = value_of(c)
        return z3.And(is_ref(v), c.eng.isinstance_term(c.pre.cls(r_of(v)), 'ConfigNode'))

    def req(c):
        v = value_of(c)
        kw = _kw_of(c)
        out = [('deduction-form', z3.BoolVal(c.a['cls'].name == 'ConfigNode' and len(c.a['args'].items) == 1))]
        out.append(('flags-valid', z3.And([kw_valid(t, k) for k, t in kw.items()] or [z3.BoolVal(True)])))
        vr = r_of(v)
        out.append(('node-valid', z3.Implies(isnode(c), z3.And(S.valid_flags(c.pre, vr), S.desc_valid(c.pre, vr)))))
        out.append(S.subwf_clause(c.eng, c.pre, vr, guard=isnode(c)))
        return out

    def result(c, it):
        r = it.run.fresh('newnode', sym.I)
        c.x['rr'] = r
        return SV(sym.mk_ref(r))

    def ens(c):
        v = value_of(c)
        vr = r_of(v)
        kw = _kw_of(c)
        rr = r_of(c.rt)
        node = isnode(c)
        out = [('adopted-is-same-object', z3.Implies(node, rr == vr)),
               ('new-is-fresh', z3.Implies(z3.Not(node), rr < -1000000)),
               ('result-is-node', c.eng.isinstance_term(c.post.cls(rr), 'ConfigNode')),
               ('result-valid', S.valid_flags(c.post, rr))]
        for k in INHERIT:
            f = '_' + k
            pre_, post_ = c.pre.get(f, vr), c.post.get(f, rr)
            if k in kw:
                if k == 'implicit_safe':
                    out.append((k, z3.If(z3.And(node, pre_ == sym.FALSE), post_ == sym.FALSE, post_ == kw[k])))
                else:
                    out.append((k, post_ == kw[k]))
            else:
                out.append((k, z3.Implies(node, post_ == pre_)))
        x = z3.Int('!cx')
        if 'priority' in kw:
            out.append(('prio-below', z3.Implies(node, S.FA([x], z3.Implies(S.Desc(vr, x), c.post.get('_priority', x) == kw['priority']), patterns=[S.Desc(vr, x)]))))
        out.append(('never-makes-safe', S.FA([x], z3.Implies(z3.And(x != rr, x > 0, S.safe(c.post, x)), S.safe(c.pre, x)))))
        out.append(('desc-valid', z3.Implies(node, S.desc_valid(c.post, vr))))
        # ASSUMED part: a new node built from a plain value
        new = z3.Not(node)
        for f, k in (('_delete', 'delete'), ('_allow_new', 'allow_new'), ('_safe', 'safe')):
            out.append((k, z3.Implies(new, c.post.get(f, rr) == kw.get(k, sym.NONE))))
        out.append(('content', z3.Implies(new, Content(rr) == v)))
        cls = c.post.cls(rr)
        out.append(('deduced-class', z3.Implies(new, z3.And(
            z3.Implies(sym.is_str(v), cls == c.cid('ConfigScalar[str]')), z3.Implies(sym.is_bool(v), cls == c.cid('ConfigScalar[bool]')),
            z3.Implies(sym.is_int(v), cls == c.cid('ConfigScalar[int]')), z3.Implies(sym.is_none(v), cls == c.cid('ConfigScalar[NoneType]')),
            z3.Implies(z3.And(is_ref(v), c.pre.cls(vr) == c.cid('list')), cls == c.cid('ConfigList')),
            z3.Implies(z3.And(is_ref(v), c.pre.cls(vr) == c.cid('dict')), cls == c.cid('ConfigDict')),
            z3.Implies(z3.Not(is_ref(v)), z3.And(c.post.get('$sval', rr) == v, z3.Not(S.is_composed(c.eng, cls)))),
            S.subwf(c.eng, c.post, rr)))))
        return out

    def mods(c):
        v = value_of(c)
        vr = r_of(v)
        node = isnode(c)
        out = []
        for f in ['_priority', '_pyyaml_node'] + S.IMPLICIT:
            out.append((f, (lambda r, vr=vr, node=node: z3.And(node, z3.Or(r == vr, S.Desc(vr, r))))))
        return out

    def post_effect(c, it):
        # make the fresh identity distinct from every earlier callee-created object
        rr = r_of(c.rt)
        floor = getattr(it.run, 'floor', z3.IntVal(-1000000))
        it.run.assume(z3.Implies(rr < 0, rr < floor))
        it.run.floor = z3.If(rr < 0, rr, floor)

    R.add(Contract(N + 'ConfigNodeMeta.__call__', [], name='callee', requires=req, ensures=[('make', ens)], modifies=mods, result=result,
                   assume_only=True, props=('C01', 'C03', 'C07', 'C17'), opts={'callee': True, 'post_effect': post_effect},
                   note='ConfigNode(value, **flags): adoption of an existing node is proved (adopt-* instances); construction of a NEW node from a '
                        'plain value (class by type deduction, flags from the keyword arguments, content = value) is assumed'))
