"""C19: what a node hands to copy / pickle (ComposedNode.__reduce__ and friends) determines the node completely."""
import z3
from pyvc import sym
from pyvc.sym import Val, is_none, is_ref, is_undef, r_of, mk_str, MapT, ListT
from pyvc.contract import Contract, P, Raises, Loop
from pyvc.values import SV, TupleV, IterV, FuncV, OpaqueV
from . import spec as S

C = 'awesomeyaml/nodes/composed.py::'
CLASSES = ['ConfigDict', 'ConfigList', 'CallNode', 'BindNode', 'PathNode', 'AppendNode', 'StreamNode']


def register(R):
    for cls in CLASSES:
        def gs_ens(c, cls=cls):
            s = c.ref('self')
            m = c.post.m(r_of(c.rt))
            fields = sorted(c.eng.class_fields[cls])
            out = [('C19.the-state-has-every-instance-attribute-except-the-child-view',
                    z3.And([z3.And(m.has(mk_str(f)), m.get(mk_str(f)) == c.pre.get(f, s)) for f in fields if f != '_children'] + [z3.Not(m.has(mk_str('_children'))), m.len == len(fields) - 1])),
                   ('C19.the-state-is-a-new-dict', r_of(c.rt) < 0)]
            return out
        R.add(Contract(C + 'ComposedNode.__getstate__', [P.node('self', cls, exact=True)], name=cls, pure=True, ensures=[('getstate', gs_ens)], result=P.map('result'),
                       props=('C19',), opts={'no_search': True, 'verify_only': True},
                       note='instance attributes: those the class or a base assigns on self (scanned from the source); all assumed present on a constructed node'))

        def red_ens(c, cls=cls):
            s = c.ref('self')
            items = c.res.items
            out = [('C19.recreated-by-_recreate-with-the-exact-class', z3.BoolVal(isinstance(items[0], FuncV) and items[0].fi.qualname == 'ComposedNode._recreate' and
                                                                                  isinstance(items[1], TupleV) and len(items[1].items) == 1 and isinstance(items[1].items[0], OpaqueV)))]
            is_list = c.eng.repo.is_subclass(cls, 'list')
            lit, dit = items[3], items[4]
            if is_list:
                # iter(self) of a list node walks the built-in list storage (the class defines no __iter__ of its own: structural, class table)
                no_own_iter = isinstance(c.eng.repo.resolve_method(cls, '__iter__'), tuple)
                out.append(('C19.list-items-are-iterated-from-the-list-view-and-no-dict-items',
                            z3.And(z3.BoolVal(no_own_iter), lit.t == c['self'] if isinstance(lit, SV) else z3.BoolVal(False), is_none(dit.t) if isinstance(dit, SV) else z3.BoolVal(False))))
            else:
                out.append(('C19.dict-items-are-iterated-from-the-mapping-view-and-no-list-items',
                            z3.BoolVal(False) if not isinstance(dit, IterV) else z3.And(dit.a.eq(c.pre.m(s)), z3.BoolVal(dit.kind == 'items'), is_none(lit.t) if isinstance(lit, SV) else z3.BoolVal(False))))
            st = c.post.m(r_of(items[2].t))
            out.append(('C19.state-excludes-only-the-child-view', z3.And(z3.Not(st.has(mk_str('_children'))), st.len == len(c.eng.class_fields[cls]) - 1)))
            return out
        R.add(Contract(C + 'ComposedNode.__reduce__', [P.node('self', cls, exact=True)], name=cls, pure=True, ensures=[('reduce', red_ens)], props=('C19',),
                       opts={'no_search': True, 'verify_only': True, 'inline_getstate': True}, inline=[C + 'ComposedNode.__getstate__']))

    def ss_ens(c):
        s = c.ref('self')
        m = c.pre.m(c.ref('state'))
        return [('C19.every-attribute-of-the-state-is-restored', z3.And([c.post.get(f, s) == m.get(mk_str(f)) for f in ('_priority', '_delete', '_allow_new', '_safe', '_implicit_delete',
                                                                        '_implicit_allow_new', '_implicit_safe', '_default_safe', '_source_file', '_metadata', '_idx')]))]

    def ss_setup(it, fr, sc):
        # a state of the shape __getstate__ produces for a mapping node
        r = sym.r_of(it.spec_args['state'].t)
        m = MapT.empty()
        for f in sorted(it.eng.class_fields['ConfigDict']):
            if f != '_children':
                m = it.map_set_simpl(m, mk_str(f), it.run.fresh('st_' + f))
        it.heap.put_m(r, m)
        it.pre_heap = it.heap.snapshot()

    FLD = lambda eng: sorted(f for f in eng.class_fields['ConfigDict'] if f != '_children')
    R.add(Contract(C + 'ComposedNode.__setstate__', [P.node('self', 'ConfigDict', exact=True), P.map('state')],
                   modifies=lambda c: [(f, [c.ref('self')]) for f in FLD(c.eng)], ensures=[('setstate', ss_ens)], props=('C19',),
                   opts={'setup': ss_setup, 'no_search': True, 'verify_only': True}))
