"""Evaluation phase: execution gates (C07), memoised evaluation (C10), cross references (C09), required placeholders (C14)."""
import z3
from pyvc import sym
from pyvc.sym import Val, is_none, is_bool, is_int, is_str, is_ref, is_undef, b_of, i_of, r_of, mk_bool, mk_int, mk_str, MapT, ListT
from pyvc.contract import Contract, P, Raises, Loop
from pyvc.values import SV, PathV, OpaqueV, TupleV
from . import spec as S

N = 'awesomeyaml/nodes/node.py::'
E = 'awesomeyaml/eval_context.py::'
D = 'awesomeyaml/nodes/dict.py::'
F = 'awesomeyaml/nodes/function.py::'


def register(R):
    # effects: operations that execute code on behalf of the configuration
    R.effects.update({'awesomeyaml.utils.import_name': 'import-name', '..utils.import_name': 'import-name', 'functools.partial': 'bind-target',
                      'compile': 'compile-code', 'exec': 'exec-code', 'eval': 'eval-code'})
    ctx = lambda: P.node('ctx', 'EvalContext', exact=True)
    R.add(Contract('awesomeyaml/utils.py::import_name', [P.val('symbol_name', 'any')], name='effect', assume_only=True, pure=True,
                   effects=[('import-name',)], raises=[Raises('ImportError'), Raises('ValueError')], result=P.val('result', 'any'), props=('C07', 'C13'),
                   note='imports modules / resolves attributes named by the configuration: an execution effect, gated by the callers'))

    # container evaluation used for the arguments of a function node: abstract (assumed) - evaluates every child through the context
    R.add(Contract(D + 'ConfigDict.ayns.on_evaluate_impl', [P.node('self', 'ConfigDict'), P.path('path'), ctx()], name='abstract', assume_only=True,
                   modifies=lambda c: [(f, 'all') for f in ('_eval_cache', '_eval_cache_id', '_eval_stack', '$mlen', '$mkeyat', '$mpos', '$mval', '$llen', '$litem')],
                   raises=[Raises('EvalError'), Raises('UnsafeError')], result=P.map('result'), props=('C07',), opts={'callee': True},
                   note='evaluation of a mapping node: every child goes through ctx.evaluate_node (proved separately for the memo); result is a Bunch'))
    R.add(Contract(F + 'FunctionNode._resolve_args', [P.val('func', 'any'), P.map('args')], name='abstract', assume_only=True, pure=True,
                   raises=[Raises('ValueError')], result=lambda c, it: TupleV([it.eng.fresh_param(it, P.list('p'), it.run, result=True), it.eng.fresh_param(it, P.map('kwp'), it.run, result=True),
                                                                               it.eng.fresh_param(it, P.map('kw'), it.run, result=True)]),
                   props=('C07',), opts={'callee': False}, note='argument resolution (functional contract proved separately for C13)'))

    def gate_safe(sc, kw):
        return S.safe(sc.pre, sc.ref('self'))

    GATES = {'import-name': gate_safe, 'call-target': gate_safe, 'bind-target': gate_safe, 'compile-code': gate_safe, 'exec-code': gate_safe, 'eval-code': gate_safe}
    USE = {F + 'FunctionNode._resolve_args': 'abstract', D + 'ConfigDict.ayns.on_evaluate_impl': 'abstract'}
    for key, cls in (('awesomeyaml/nodes/call.py::CallNode.ayns.on_evaluate_impl', 'CallNode'), ('awesomeyaml/nodes/bind.py::BindNode.ayns.on_evaluate_impl', 'BindNode')):
        R.add(Contract(key, [P.node('self', cls, exact=True), P.path('path'), ctx()],
                       requires=lambda c: [('valid', S.valid_flags(c.pre, c.ref('self'))), ('ctx-mode-is-bool', is_bool(c.pre.get('_require_all_safe', c.ref('ctx')))),
                                           ('apart', c.ref('self') != c.ref('ctx'))],
                       modifies=lambda c: [(f, 'all') for f in ('_eval_cache', '_eval_cache_id', '_eval_stack', '$mlen', '$mkeyat', '$mpos', '$mval', '$llen', '$litem', '_require_all_safe')],
                       raises=[Raises('UnsafeError', name='C07.UnsafeError'), Raises('EvalError'), Raises('ValueError'), Raises('ImportError')],
                       result=P.val('result', 'any'), props=('C07',),
                       ensures=[('C07.returns-only-for-a-safe-node', lambda c: S.safe(c.pre, c.ref('self'))),
                                ('C07.require-all-safe-mode-restored', lambda c: c.post.get('_require_all_safe', c.ref('ctx')) == c.pre.get('_require_all_safe', c.ref('ctx')))],
                       opts={'gates': GATES, 'use': USE, 'no_search': True, 'gates_on_raise': True,
                             'ensures_on_raise': [('C07.require-all-safe-mode-restored-on-error', lambda c: c.post.get('_require_all_safe', c.ref('ctx')) == c.pre.get('_require_all_safe', c.ref('ctx')))]},
                       note='every import of the target, the call / partial application itself happen only for a safe node; arguments are evaluated in require-all-safe mode'))

    R.add(Contract('awesomeyaml/nodes/import.py::ImportNode.ayns.on_evaluate_impl', [P.node('self', 'ImportNode', exact=True), P.path('path'), ctx()],
                   requires=lambda c: [('valid', S.valid_flags(c.pre, c.ref('self')))], pure=True,
                   raises=[Raises('UnsafeError', when=lambda c: z3.Not(S.safe(c.pre, c.ref('self'))), exact=True, name='C07.UnsafeError-iff-unsafe'), Raises('ImportError'), Raises('ValueError')],
                   result=P.val('result', 'any'), props=('C07',), opts={'gates': GATES, 'no_search': True},
                   ensures=[('C07.returns-only-for-a-safe-node', lambda c: S.safe(c.pre, c.ref('self')))]))

    # ---- require_all_safe (context manager of EvalContext) ------------------------------------------------------
    def ras_body(it, fr, v):
        # the body of the with statement: any effect on the evaluation caches, may raise
        k = it.run.choose(3, 'with-body')
        if k == 1:
            from pyvc.core import RaiseEx
            from pyvc.values import ExcV, NONE
            raise RaiseEx(ExcV('UnsafeError', fields={'node': NONE, 'path': NONE, 'extra_node': NONE, 'error_msg': NONE, 'note': NONE}))
        if k == 2:
            from pyvc.core import RaiseEx
            from pyvc.values import ExcV
            raise RaiseEx(ExcV('ValueError'))

    R.add(Contract(E + 'EvalContext.require_all_safe', [P.node('self', 'EvalContext', exact=True), P.node('node', 'ConfigNode'), P.path('path')],
                   requires=lambda c: [('mode-is-bool', is_bool(c.pre.get('_require_all_safe', c.ref('self'))))],
                   modifies=lambda c: [('_require_all_safe', [c.ref('self')])],
                   raises=[Raises('EvalError', name='C07.unsafe-dependency-reported-as-EvalError'), Raises('ValueError')], props=('C07',),
                   ensures=[('C07.mode-restored-on-normal-exit', lambda c: c.post.get('_require_all_safe', c.ref('self')) == c.pre.get('_require_all_safe', c.ref('self')))],
                   opts={'cm_body': ras_body, 'verify_only': True, 'no_search': True,
                         'ensures_on_raise': [('C07.mode-restored-on-every-exceptional-exit', lambda c: c.post.get('_require_all_safe', c.ref('self')) == c.pre.get('_require_all_safe', c.ref('self')))]},
                   note='the with-body is arbitrary (returns, raises UnsafeError, raises something else); inside it the mode is True'))


# ---------------------------------------------------------------------------------------------------------------
def register_evaluate_node(R):
    """EvalContext.evaluate_node: memoisation by identity (C10), require-all-safe mode (C07)"""
    ctx = lambda n='self': P.node(n, 'EvalContext', exact=True)
    CACHE = ('$mlen', '$mkeyat', '$mpos', '$mval')

    def cid_map(h, s):
        return h.m(r_of(h.get('_eval_cache_id', s)))

    def key_of(c):
        return mk_int(c.ref('cfgobj'))

    # the recursive evaluation of one node (on_evaluate -> on_evaluate_impl): assumed; its effect on the memo is monotone
    def oe_ens(c):
        s = c.ref('root')
        m0, m1 = cid_map(c.pre, s), cid_map(c.post, s)
        k = z3.Const('!ek', Val)
        return [('memo-only-grows', S.FA([k], z3.Implies(m0.has(k), z3.And(m1.has(k), m1.get(k) == m0.get(k))), patterns=[m1.get(k)])),
                ('cache-objects-stay', z3.And(c.post.get('_eval_cache_id', s) == c.pre.get('_eval_cache_id', s), c.post.get('_eval_cache', s) == c.pre.get('_eval_cache', s),
                                              c.post.get('_eval_stack', s) == c.pre.get('_eval_stack', s))),
                ('result-is-not-a-node', z3.Not(z3.And(is_ref(c.rt), c.eng.isinstance_term(c.post.cls(r_of(c.rt)), 'ConfigNode')))),
                ('evaluation-stack-balanced', c.post.l(r_of(c.pre.get('_eval_stack', s))).eq(c.pre.l(r_of(c.pre.get('_eval_stack', s))))),
                ('memo-lengths', z3.And(m1.len >= m0.len, c.post.m(r_of(c.pre.get('_eval_cache', s))).len >= 0))]

    R.add(Contract(N + 'ConfigNode.ayns.on_evaluate', [P.node('self', 'ConfigNode'), P.path('path'), P.node('root', 'EvalContext', exact=True)], name='abstract',
                   assume_only=True, effects=[('on-evaluate',)], ensures=[('on_evaluate', oe_ens)],
                   modifies=lambda c: [(f, 'all') for f in CACHE + ('$llen', '$litem')],
                   raises=[Raises('EvalError'), Raises('UnsafeError')], result=P.val('result', 'any'), props=('C10', 'C07', 'C09'), opts={'callee': True},
                   note='evaluation of one node (rethrow wrapper + on_evaluate_impl of its class): may evaluate other nodes through the same context; the memo only grows; the result is not a node (asserted in on_evaluate, proved for C11)'))
    R.add(Contract(E + 'PartialChild.get_or_set', [P.node('self', 'PartialChild', exact=True), P.val('key', 'any')], name='abstract', assume_only=True,
                   modifies=lambda c: [(f, (lambda r, c=c: c.eng.isinstance_term(c.pre.cls(r), 'PartialChild'))) for f in CACHE],
                   result=P.node('result', 'PartialChild', exact=True, maybe_fresh=True), raises=[Raises('KeyError'), Raises('TypeError')], props=('C10',),
                   note='partial result tree: returns the PartialChild for a key, creating it on demand; touches only PartialChild objects'))

    def hit(c):
        return cid_map(c.pre, c.ref('self')).has(key_of(c))

    def unsafe_in_mode(c):
        return z3.And(sym.truthy_prim(c.pre.get('_require_all_safe', c.ref('self'))), z3.Not(S.safe(c.pre, c.ref('cfgobj'))))

    def req(c):
        s = c.ref('self')
        return [('valid', S.valid_flags(c.pre, c.ref('cfgobj'))), ('mode-is-bool', is_bool(c.pre.get('_require_all_safe', s))),
                ('distinct-cache-objects', z3.And(c.pre.get('_eval_cache_id', s) != c.pre.get('_eval_cache', s), r_of(c.pre.get('_eval_cache_id', s)) > 0,
                                                  r_of(c.pre.get('_eval_cache', s)) > 0, r_of(c.pre.get('_eval_stack', s)) > 0)),
                ('stack-len', c.pre.l(r_of(c.pre.get('_eval_stack', s))).len >= 0),
                ('memo-lengths', z3.And(cid_map(c.pre, s).len >= 0, c.pre.m(r_of(c.pre.get('_eval_cache', s))).len >= 0)),
                ('partial-result-root', z3.Or(is_none(c.pre.get('_ecfg', s)), z3.And(is_ref(c.pre.get('_ecfg', s)), r_of(c.pre.get('_ecfg', s)) > 0,
                                                                                     c.pre.cls(r_of(c.pre.get('_ecfg', s))) == c.cid('PartialChild'))))]

    def ens(c):
        s = c.ref('self')
        m0, m1 = cid_map(c.pre, s), cid_map(c.post, s)
        return [('C10.memo-hit-returns-the-memoised-object', z3.Implies(hit(c), c.rt == m0.get(key_of(c)))),
                ('C10.memo-written-for-the-node', z3.And(m1.has(key_of(c)), m1.get(key_of(c)) == c.rt)),
                ('C10.memo-hit-leaves-the-memo-untouched', z3.Implies(hit(c), m1.eq(m0))),
                ('C07.in-require-all-safe-mode-only-safe-nodes-are-returned', z3.Not(unsafe_in_mode(c)))]

    def gate_once(sc, kw):
        # on_evaluate is invoked only on a memo miss, and at most once per call
        n_before = len([e for e in sc.events if e[0] == 'on-evaluate' and e[2].get('index', -1) < kw['index']])
        return z3.And(z3.Not(hit(sc)), z3.BoolVal(n_before == 0), kw['args'][0].t == sc['cfgobj'])

    def inv(c, L):
        s = c.ref('self')
        en = L.loc['enode']
        return [('partial-child', z3.And(is_ref(en.t), L.heap.cls(r_of(en.t)) == c.cid('PartialChild'))),
                ('memo-untouched', z3.And(cid_map(L.heap, s).eq(cid_map(L.entry_heap, s)), L.heap.get('_eval_cache_id', s) == L.entry_heap.get('_eval_cache_id', s),
                                          L.heap.get('_eval_cache', s) == L.entry_heap.get('_eval_cache', s), L.heap.get('_eval_stack', s) == L.entry_heap.get('_eval_stack', s),
                                          L.heap.l(r_of(L.heap.get('_eval_stack', s))).eq(L.entry_heap.l(r_of(L.entry_heap.get('_eval_stack', s))))))]

    def replay_direct(repo, obl_name):
        # the contract's clauses on the real function: small trees, every node evaluated through a fresh context, with and
        # without a path; the memo is read back through the context's own fields
        import importlib
        ay = importlib.import_module('awesomeyaml')
        from awesomeyaml.nodes.node import ConfigNode
        EvalContext = importlib.import_module('awesomeyaml.eval_context').EvalContext
        docs = [{'a': 1}, {'a': {'b': [1, 2]}, 'c': 'x'}, {'a': [{'b': 1}, 2], 'd': {'e': {'f': None}}}]
        done = 0
        for doc in docs:
            root = ConfigNode(doc)
            entries = [((), root)] + [(tuple(p), n) for p, n in root.ayns.nodes_with_paths()]
            for path, node in entries:
                for with_path in (True, False):
                    ctx = EvalContext()
                    ctx._cfg = root
                    ctx._ecfg = EvalContext.PartialChild(importlib.import_module('awesomeyaml.nodes.node_path').NodePath(), ctx, root)
                    try:
                        res = ctx.evaluate_node(node, list(path)) if with_path else ctx.evaluate_node(node)
                    except Exception as e:
                        continue        # a node below a list evaluated out of its parent's turn: not a state the library reaches
                    done += 1
                    memo = ctx._eval_cache_id
                    inp = {'document': doc, 'node_path': list(path), 'prefix_given': with_path}
                    if id(node) not in memo or memo[id(node)] is not res:
                        return {'verdict': 'violates', 'input': inp,
                                'detail': f'evaluate_node on the node at {list(path)!r} of {doc!r}: returned {res!r} but the memo does not map the identity of the node to it (keys written: {len(memo)})'}
                    again = ctx.evaluate_node(node, list(path)) if with_path else ctx.evaluate_node(node)
                    if again is not res:
                        return {'verdict': 'violates', 'input': inp, 'detail': f'second evaluate_node of the same node at {list(path)!r} returned a different object'}
        if done < 6:
            return {'verdict': 'error', 'detail': f'only {done} sample evaluations completed', 'input': None}
        return {'verdict': 'holds', 'detail': f'memo written under the identity of the evaluated node on all {done} samples', 'input': None}

    for nm, pref in (('with-path', P.path('prefix')), ('no-path', P.const('prefix', None))):
        R.add(Contract(E + 'EvalContext.evaluate_node', [ctx(), P.node('cfgobj', 'ConfigNode'), pref], name=nm, requires=req,
                       modifies=lambda c: [(f, 'all') for f in CACHE + ('$llen', '$litem')],
                       ensures=[('evaluate_node', ens)],
                       raises=[Raises('UnsafeError', name='C07.UnsafeError'), Raises('EvalError'),
                               Raises('ValueError'), Raises('KeyError'), Raises('TypeError')],
                       result=P.val('result', 'any'), props=('C10', 'C07', 'C09'),
                       loops={0: Loop(inv, mod_locals=['enode', 'p'], mod_fields=[],
                                      mod_where=lambda c, L: [(f, (lambda r, c=c, L=L: z3.Or(c.eng.isinstance_term(L.entry_heap.cls(r), 'PartialChild'), r < -1000000))) for f in CACHE])},
                       opts={'gates': {'on-evaluate': gate_once}, 'no_search': True, 'callee': nm == 'with-path', 'replay_direct': replay_direct, 'shards': 6},
                       note='memoised evaluation of one node by identity'))
    R.add(Contract(E + 'EvalContext.evaluate_node', [ctx(), P.val('cfgobj', 'prim'), P.const('prefix', None)], name='plain-value', pure=True,
                   ensures=[('C11.plain-values-pass-through', lambda c: c.rt == c['cfgobj'])], result=P.val('result', 'any'), props=('C10', 'C11'),
                   opts={'no_search': True, 'callee': False, 'gates': {}}))
    R.inline_keys |= {E + 'EvalContext.ecfg', E + 'EvalContext.cfg'}


def _reg_all(R):
    register(R)
    register_evaluate_node(R)


def register_xref(R):
    X = 'awesomeyaml/nodes/xref.py::'
    Target = z3.Function('Target', sym.I, Val)           # ghost: what the config holds at the path a reference names (undef: nothing)
    ctx = lambda n='ctx': P.node(n, 'EvalContext', exact=True)
    R.add(Contract(E + 'EvalContext.get_node', [ctx('self')], name='abstract', assume_only=True, pure=True,
                   raises=[Raises('KeyError', when=lambda c: is_undef(Target(r_of(c.a['path'].items[0].t))), exact=True)],
                   ensures=[('target', lambda c: z3.And(c.rt == Target(r_of(c.a['path'].items[0].t)), is_ref(c.rt), r_of(c.rt) > 0,
                                                        c.eng.isinstance_term(c.post.cls(r_of(c.rt)), 'ConfigNode'), S.valid_flags(c.post, r_of(c.rt))))],
                   result=P.val('result', 'any'), props=('C09',), opts={'callee': True},
                   note='lookup of the node at the path a reference holds (path parsing + ComposedNode.get_node): a function of the reference; KeyError iff nothing is there'))

    def chain_l(h, L):
        return h.l(r_of(L.t('chain')))

    def inv(c, L):
        l = chain_l(L.heap, L)
        i, j = z3.Int('!ci'), z3.Int('!cj')
        cur = L.t('curr')
        return [('curr-is-a-node', z3.And(is_ref(cur), r_of(cur) > 0, c.eng.isinstance_term(L.heap.cls(r_of(cur)), 'ConfigNode'), S.valid_flags(L.heap, r_of(cur)))),
                ('chain-starts-with-own-path', l.len >= 1),
                ('C09.termination:chain-of-followed-references-stays-duplicate-free',
                 S.FA([i, j], z3.Implies(z3.And(1 <= i, i < j, j < l.len), l.get(i) != l.get(j)))),
                ('C09.termination:a-reference-is-never-followed-back-to-itself', z3.Implies(l.len > 1, cur != c['self'])),
                ('svals-unchanged', L.heap.arr('$sval') == L.entry_heap.arr('$sval'))]

    def ens(c):
        return [('C09.result-is-the-evaluation-of-a-non-reference-node', z3.BoolVal(True))]

    def gate_eval(sc, kw):
        # the node handed to evaluate_node is not a reference and not the node itself
        n_ = kw['args'][1]
        return z3.And(z3.Not(sc.eng.isinstance_term(kw['heap'].cls(r_of(n_.t)), 'XRefNode')), n_.t != sc['self'])

    R.add(Contract(X + 'XRefNode.ayns.on_evaluate_impl', [P.node('self', 'XRefNode', exact=True), P.path('path'), ctx()],
                   requires=lambda c: [('valid', S.valid_flags(c.pre, c.ref('self'))), ('mode', is_bool(c.pre.get('_require_all_safe', c.ref('ctx'))))],
                   modifies=lambda c: [(f, 'all') for f in ('$mlen', '$mkeyat', '$mpos', '$mval', '$llen', '$litem')],
                   raises=[Raises('ValueError', name='C09.missing-target-or-cycle-reported-as-error'), Raises('EvalError'), Raises('UnsafeError'), Raises('KeyError'), Raises('TypeError')],
                   result=P.val('result', 'any'), props=('C09',), ensures=[('xref', ens)],
                   loops={0: Loop(inv, mod_locals=['curr', 'ref'], mod_fields=[], mod_at=lambda c, L: [(f, [r_of(L.loc['chain'].t)]) for f in ('$llen', '$litem')])},
                   opts={'no_search': True, 'watch': {E + 'EvalContext.evaluate_node': 'evaluate-target'}, 'gates': {'evaluate-target': gate_eval},
                         'use': {E + 'EvalContext.evaluate_node': 'abstract-any-prefix', 'awesomeyaml/nodes/node_path.py::NodePath.get_str_path': 'text-of-path'}},
                   note='chain following: partial correctness (the end of the chain is evaluated through the memoising context) and the termination '
                        'invariant: no reference path is followed twice; with finitely many reference nodes in a config (pigeonhole, trusted) the loop terminates'))
    # evaluate_node called with a textual prefix (as the reference chain does): abstract
    R.add(Contract(E + 'EvalContext.evaluate_node', [ctx('self'), P.val('cfgobj', 'any')], name='abstract-any-prefix', assume_only=True,
                   modifies=lambda c: [(f, 'all') for f in ('$mlen', '$mkeyat', '$mpos', '$mval', '$llen', '$litem')],
                   raises=[Raises('EvalError'), Raises('UnsafeError')], result=P.val('result', 'any'), props=('C09',), opts={'callee': False, 'bind_partial': True},
                   note='evaluate_node with a path given as text (proved for list paths: with-path / no-path)'))


def register_context_init(R):
    """EvalContext.__init__: the symbols of a context are an object of its own (C12: a build never sees what an earlier build
    supplied) - the process-wide default table is read, never written, and never handed out."""
    DEF = '$classattr:EvalContext._default_eval_symbols'
    R.inline_keys |= {E + 'EvalContext.get_default_eval_symbols'}

    def setup(it, fr, sc):
        # the class-level default table: some dict object that exists before the call (it is mutable process-wide state)
        it.run.assume(it.heap.get(DEF, z3.IntVal(0)) == it.spec_args['$defaults'].t)

    def own(c):
        return r_of(c.post.get('_eval_symbols', c.ref('self')))

    def ens(c):
        d = c.ref('$defaults')
        k = z3.Const('!sk', Val)
        m0 = c.pre.m(d)
        m1 = c.post.m(own(c))
        given = c['eval_symbols']
        gm = c.pre.m(r_of(given))
        use = z3.And(is_ref(given), gm.len != 0)
        return [('C12.symbols-of-a-context-are-an-object-of-its-own', z3.And(is_ref(c.post.get('_eval_symbols', c.ref('self'))), own(c) != d,
                                                                            z3.Not(c.alive(own(c))), z3.Implies(is_ref(given), own(c) != r_of(given)))),
                ('C12.process-wide-default-symbols-untouched', z3.And(c.post.m(d).eq(m0), c.post.get(DEF, z3.IntVal(0)) == c.pre.get(DEF, z3.IntVal(0)))),
                ('C12.symbols-are-the-defaults-updated-with-the-given-ones',
                 S.FA([k], z3.And(m1.has(k) == z3.Or(m0.has(k), z3.And(use, gm.has(k))),
                                  z3.Implies(z3.And(use, gm.has(k)), m1.get(k) == gm.get(k)),
                                  z3.Implies(z3.And(m0.has(k), z3.Not(z3.And(use, gm.has(k)))), m1.get(k) == m0.get(k))), patterns=[m1.get(k)]))]

    for nm, par in (('without-symbols', P.const('eval_symbols', None)), ('with-symbols', P.map('eval_symbols'))):
      R.add(Contract(E + 'EvalContext.__init__', [P.node('self', 'EvalContext', exact=True), par, P.map('$defaults')], name=nm,
                   requires=lambda c: [('lens', z3.And(c.pre.m(c.ref('$defaults')).len >= 0,
                                                       z3.Implies(is_ref(c['eval_symbols']), z3.And(c.pre.m(r_of(c['eval_symbols'])).len >= 0, r_of(c['eval_symbols']) != c.ref('$defaults')))))],
                   modifies=lambda c: [(f, [c.ref('self')]) for f in ('_cfg', '_ecfg', '_removed_nodes', '_eval_cache', '_eval_cache_id', '_eval_symbols',
                                                                      '_require_all_safe', '_eval_stack', 'user_data')],
                   ensures=[('init', ens)], props=('C12',), opts={'setup': setup, 'no_search': True, 'verify_only': True},
                   note='construction of an evaluation context; the class attribute holding the default symbols is modelled as a pre-existing dict object'))


def register_evalnode(R):
    EV = 'awesomeyaml/nodes/eval.py::'
    ctx = lambda n='ctx': P.node(n, 'EvalContext', exact=True)
    R.inline_keys |= {E + 'EvalContext.get_eval_symbols', 'awesomeyaml/utils.py::Bunch.__init__', EV + 'GlobalsWrapper.__init__'}
    R.opaque['hashlib.md5'] = lambda it, a, kw, n, fr: OpaqueV('md5')
    R.opaque['str.encode'] = lambda it, a, kw, n, fr: OpaqueV('bytes')
    R.opaque['str.split'] = lambda it, a, kw, n, fr: _fresh_list(it)
    R.opaque['types.ModuleType'] = lambda it, a, kw, n, fr: _fresh_module(it)
    R.add(Contract(EV + 'EvalNode._forget_eval_symbols', [P.val('gbls', 'any')], name='abstract', assume_only=True, pure=True, props=('C12',),
                   note='removes from a REUSED namespace the names an earlier evaluation recorded as its eval symbols (loop over a recorded mapping). ASSUMED not to touch '
                        'anything the clauses of on_evaluate_impl read: it runs before the `ayns` entry and the symbols of the current build are written, which is all '
                        'the execution gates look at. Its effect (a later build does not see symbols of an earlier one) is covered by the bounded build histories'))
    R.add(Contract(EV + 'EvalNode._patch_access_to_globals', [P.val('code', 'any')], name='abstract', assume_only=True, pure=True,
                   result=lambda c, it: TupleV([SV(it.run.fresh('patched_code')), SV(it.run.fresh('did_something'))]), props=('C12',),
                   note='the CPython bytecode rewriter: NOT under contract (a translator over interpreter-specific bytecode); see the recorded finding and the bounded stand-in'))

    def gbls_at(kw):
        g = kw['args'][1]
        return kw['heap'].m(r_of(g.t))

    def gate_run(sc, kw):
        # code runs only for a safe node, in a namespace whose `ayns` entry is THIS call's context and partial config
        m = gbls_at(kw)
        h = kw['heap']
        ay = m.get(mk_str('ayns'))
        am = h.m(r_of(ay))
        return z3.And(S.safe(sc.pre, sc.ref('self')),
                      m.has(mk_str('ayns')), is_ref(ay), am.has(mk_str('ctx')), am.get(mk_str('ctx')) == sc['ctx'],
                      am.has(mk_str('cfg')), am.get(mk_str('cfg')) == sc.pre.get('_ecfg', sc.ref('ctx')))

    def gate_compile(sc, kw):
        fn = kw['args'][1]
        return z3.And(S.safe(sc.pre, sc.ref('self')), is_str(fn.t))

    def req(c):
        x = c.ref('ctx')
        return [('valid', S.valid_flags(c.pre, c.ref('self'))), ('evaluation-in-progress', z3.And(is_ref(c.pre.get('_ecfg', x)), r_of(c.pre.get('_ecfg', x)) > 0)),
                ('source-file-is-a-name-or-None', z3.Or(is_none(c.pre.get('_source_file', c.ref('self'))), is_str(c.pre.get('_source_file', c.ref('self'))))),
                ('persistent-flag', is_bool(c.pre.get('persistent_namespace', c.ref('self')))),
                ('no-eval-symbol-shadows-the-ayns-entry', z3.Not(c.pre.m(r_of(c.pre.get('_eval_symbols', x))).has(mk_str('ayns'))))]

    R.add(Contract(EV + 'EvalNode.ayns.on_evaluate_impl', [P.node('self', ['EvalNode', 'FStrNode']), P.path('path'), ctx()], requires=req,
                   modifies=lambda c: [(f, 'all') for f in ('$mlen', '$mkeyat', '$mpos', '$mval', '$llen', '$litem', '_require_all_safe')],
                   raises=[Raises('UnsafeError', name='C07.UnsafeError'), Raises('EvalError', name='C12.user-code-failures-surface-as-EvalError'), Raises('AssertionError')],
                   ensures=[('C07.returns-only-for-a-safe-node', lambda c: S.safe(c.pre, c.ref('self')))],
                   result=P.val('result', 'any'), props=('C12', 'C07'),
                   opts={'gates': {'compile-code': gate_compile, 'exec-code': gate_run, 'eval-code': gate_run, 'register-module': lambda sc, kw: z3.BoolVal(True)},
                         'use': {EV + 'EvalNode._patch_access_to_globals': 'abstract', E + 'EvalContext.evaluate_node': 'abstract-any-prefix'},
                         'no_search': True, 'no_frame': True, 'skip_kinds': ('safety',), 'opaque_text_comprehensions': True, 'gates_on_raise': True, 'asserts_are_checks': True},
                   note='execution sites of !eval / f-string nodes: gated by safety; the file name handed to compile() is a string; the namespace the code runs in carries the context of this call'))


def register_globals_wrapper(R):
    """GlobalsWrapper.__getattr__ (C12): how a name that the user code does not define itself is resolved - a symbol or earlier
    definition in the namespace first, then the top-level config entry of that name (evaluated through the partial config, in
    require-all-safe mode), then a builtin, else NameError."""
    EV = 'awesomeyaml/nodes/eval.py::'
    EntryValue = z3.Function('ConfigEntryValue', sym.I, Val, Val)     # ghost: what partial_config[name] evaluates to
    R.add(Contract(E + 'PartialChild.__getitem__', [P.node('self', 'PartialChild', exact=True), P.val('key', 'any')], name='abstract', assume_only=True,
                   modifies=lambda c: [(f, 'all') for f in ('$mlen', '$mkeyat', '$mpos', '$mval', '$llen', '$litem')], effects=[('read-config-entry',)],
                   ensures=[('value', lambda c: c.rt == EntryValue(c.ref('self'), c['key']))], result=P.val('result', 'any'), raises=[Raises('EvalError'), Raises('UnsafeError'), Raises('KeyError')],
                   props=('C12',), opts={'callee': False}, note='entry of the partially evaluated config: evaluates the node on demand (C10)'))
    R.add(Contract(E + 'EvalContext.require_all_safe', [P.node('self', 'EvalContext', exact=True), P.node('node', 'ConfigNode'), P.path('path')], name='mode-on', assume_only=True,
                   props=('C12',), opts={'callee': False, 'cm_opaque': True}, note='context manager (proved for C07): the mode is on inside the block'))

    def setup(it, fr, sc):
        it.run.assume(it.heap.get('$global:__builtins__', z3.IntVal(0)) == it.spec_args['$builtins'].t)

    def parts(c):
        s = c.ref('self')
        h = c.pre
        g = h.m(r_of(h.get('gbls', s)))
        e = r_of(h.get('ecfg', s))
        cf = S.children(h, r_of(h.get('_cfgobj', e)))
        b = h.m(c.ref('$builtins'))
        return g, e, cf, b

    def req(c):
        s = c.ref('self')
        h = c.pre
        e = r_of(h.get('ecfg', s))
        return [('namespace-is-a-dict', z3.And(is_ref(h.get('gbls', s)), r_of(h.get('gbls', s)) > 0, h.cls(r_of(h.get('gbls', s))) == c.cid('dict'))),
                ('partial-config', z3.And(is_ref(h.get('ecfg', s)), e > 0, h.cls(e) == c.cid('PartialChild'), is_ref(h.get('_cfgobj', e)), r_of(h.get('_cfgobj', e)) > 0,
                                          c.eng.isinstance_term(h.cls(r_of(h.get('_cfgobj', e))), 'ConfigDict'),
                                          h.m(r_of(h.get('_cfgobj', e))).eq(S.children(h, r_of(h.get('_cfgobj', e)))))),
                ('config-root-is-a-consistent-mapping-node', _mapping_node_ok(c, h, r_of(h.get('_cfgobj', e)))),
                ('context', z3.And(is_ref(h.get('ctx', s)), r_of(h.get('ctx', s)) > 0, h.cls(r_of(h.get('ctx', s))) == c.cid('EvalContext'))),
                ('node', z3.And(is_ref(h.get('node', s)), r_of(h.get('node', s)) > 0, c.eng.isinstance_term(h.cls(r_of(h.get('node', s))), 'ConfigNode')))]

    def ens(c):
        g, e, cf, b = parts(c)
        n = c['name']
        return [('C12.a-definition-or-symbol-in-the-namespace-wins', z3.Implies(g.has(n), c.rt == g.get(n))),
                ('C12.then-the-top-level-config-entry-of-that-name', z3.Implies(z3.And(z3.Not(g.has(n)), cf.has(n)), c.rt == EntryValue(e, n))),
                ('C12.then-a-builtin', z3.Implies(z3.And(z3.Not(g.has(n)), z3.Not(cf.has(n))), z3.And(b.has(n), c.rt == b.get(n))))]

    def gate_entry(sc, kw):
        # the config entry is read only when the namespace does not define the name, and for exactly that name
        g, e, cf, b = parts(sc)
        return z3.And(z3.Not(g.has(sc['name'])), cf.has(sc['name']), kw['args'][0].t == sc.pre.get('ecfg', sc.ref('self')), kw['args'][1].t == sc['name'])

    R.add(Contract(EV + 'GlobalsWrapper.__getattr__', [P.node('self', 'GlobalsWrapper', exact=True), P.val('name', 'str'), P.map('$builtins')], requires=req,
                   modifies=lambda c: [(f, 'all') for f in ('$mlen', '$mkeyat', '$mpos', '$mval', '$llen', '$litem', '_require_all_safe')],
                   ensures=[('resolve', ens)],
                   raises=[Raises('NameError', exact=True, name='C12.NameError-iff-defined-nowhere',
                                  when=lambda c: z3.And(*[z3.Not(m.has(c['name'])) for m in (parts(c)[0], parts(c)[2], parts(c)[3])])),
                           Raises('EvalError'), Raises('UnsafeError'), Raises('KeyError')],
                   result=P.val('result', 'any'), props=('C12',),
                   opts={'setup': setup, 'no_search': True, 'no_frame': True, 'use': {E + 'PartialChild.__getitem__': 'abstract'},
                         'gates': {'read-config-entry': gate_entry}, 'gates_on_raise': True, 'skip_kinds': ('safety',)},
                   note='name resolution of user code; the builtins table is modelled as a dict object'))


def register_partial_child(R):
    """PartialChild.__getattr__ (C10): attribute access on the partially evaluated config is item access - whatever the state of the
    partial result, `cfg.name` is `cfg['name']`, which evaluates the node on demand.  A guard that refuses names not evaluated yet
    would make the value of user code depend on the order in which keys were written."""
    def gate_item(sc, kw):
        return z3.And(kw['args'][0].t == sc['self'], kw['args'][1].t == sc['name'])
    R.add(Contract(E + 'PartialChild.__getattr__', [P.node('self', 'PartialChild', exact=True), P.val('name', 'str')],
                   modifies=lambda c: [(f, 'all') for f in ('$mlen', '$mkeyat', '$mpos', '$mval', '$llen', '$litem')],
                   ensures=[('C10.attribute-access-is-item-access-whatever-has-been-evaluated-so-far',
                             lambda c: z3.BoolVal(any(e[0] == 'read-config-entry' for e in getattr(c, 'events', []))))],
                   raises=[Raises('EvalError'), Raises('UnsafeError'), Raises('KeyError')], result=P.val('result', 'any'), props=('C10',),
                   opts={'use': {E + 'PartialChild.__getitem__': 'abstract'}, 'gates': {'read-config-entry': gate_item}, 'gates_on_raise': True,
                         'no_search': True, 'no_frame': True, 'skip_kinds': ('safety',)},
                   note='no AttributeError for names that are merely not evaluated yet'))


def _mapping_node_ok(c, h, d):
    from .c_containers import inv_dict, chref
    mm = S.children(h, d)
    kk = z3.Const('!gwk', Val)
    return z3.And(mm.len >= 0, S.FA([kk], z3.And(z3.Select(mm.pos, kk) >= -1, z3.Select(mm.pos, kk) < mm.len), patterns=[z3.Select(mm.pos, kk)]),
                  is_ref(h.get('_children', d)), chref(h, d) > 0, h.cls(chref(h, d)) == c.cid('dict'), inv_dict(c, h, d))


def _fresh_list(it):
    r = it.run.alloc('list')
    it.heap.put_l(r, ListT.fresh(f'split!{it.run.nfresh}'))
    it.run.nfresh += 1
    it.run.assume(it.heap.l(r).len >= 1)
    return SV(sym.mk_ref(r), hint=frozenset(['list']))


def _fresh_module(it):
    r = it.run.alloc('module')
    d = it.run.alloc('dict')
    it.heap.put_m(d, MapT.empty())
    it.heap.put('$dict', r, sym.mk_ref(d))
    return SV(sym.mk_ref(r), hint=frozenset(['module']))


def _reg_all(R):
    register(R)
    register_evaluate_node(R)
    register_xref(R)
    register_context_init(R)
    register_evalnode(R)
    register_globals_wrapper(R)
    register_partial_child(R)
