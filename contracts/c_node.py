"""Contracts on awesomeyaml/nodes/node.py: flag getters, priority comparison, leaf merge, _replace_*, gates."""
import z3
from pyvc import sym
from pyvc.sym import Val, is_none, is_bool, is_int, is_ref, b_of, i_of, r_of, mk_bool, mk_int
from pyvc.contract import Contract, P, Raises, Loop
from pyvc.values import SV
from . import spec as S

N = 'awesomeyaml/nodes/node.py::'


def _valid(*names):
    def req(c):
        return z3.And([S.valid_flags(c.pre, c.ref(n)) for n in names])
    return req


def register(R):
    R.inline_keys |= {'awesomeyaml/utils.py::notnone_or', N + 'ConfigNode._propagate_implicit_values',
                      N + 'ConfigNode._is_composed', N + 'ConfigNode._is_plain_composed',
                      'awesomeyaml/nodes/composed.py::ComposedNode._is_composed',
                      'awesomeyaml/nodes/composed.py::ComposedNode._is_plain_composed'}

    node = lambda n='self': P.node(n, 'ConfigNode')

    # ---- getters -----------------------------------------------------------------------------
    R.add(Contract(N + 'ConfigNode.ayns.priority', [node()], requires=_valid('self'), pure=True,
                   result=P.val('result', 'int'),
                   ensures=[('C03.priority-is-own-or-standard', lambda c: i_of(c.rt) == S.prio(c.pre, c.ref('self')))]))
    R.add(Contract(N + 'ConfigNode.ayns.delete', [node()], requires=_valid('self'), pure=True,
                   result=P.val('result', 'bool'),
                   ensures=[('C04+C13.delete-explicit-then-inherited-then-type-default',
                             lambda c: b_of(c.rt) == S.delete_eff(c.eng, c.pre, c.ref('self')))]))
    R.add(Contract(N + 'ConfigNode.ayns.allow_new', [node()], requires=_valid('self'), pure=True,
                   result=P.val('result', 'bool'),
                   ensures=[('C08.allow_new-inherited-else-true', lambda c: b_of(c.rt) == S.allow_new(c.pre, c.ref('self')))]))
    R.add(Contract(N + 'ConfigNode.ayns.explicit_delete', [node()], requires=_valid('self'), pure=True,
                   result=P.val('result', 'optbool'),
                   ensures=[('explicit_delete-is-own-flag', lambda c: c.rt == c.pre.get('_delete', c.ref('self')))]))
    R.add(Contract(N + 'ConfigNode.ayns.safe', [node()], requires=_valid('self'), pure=True,
                   result=P.val('result', 'bool'),
                   ensures=[('C07.safe-iff-no-unsafe-mark-and-safe-source', lambda c: b_of(c.rt) == S.safe(c.pre, c.ref('self')))]))
    R.add(Contract(N + 'ConfigNode.ayns.source_file', [node()], pure=True, result=P.val('result', 'any'),
                   ensures=[('source_file-is-recorded', lambda c: c.rt == c.pre.get('_source_file', c.ref('self')))]))
    R.add(Contract(N + 'ConfigNode.ayns.metadata', [node()], pure=True, result=P.val('result', 'any'),
                   ensures=[('metadata-is-own', lambda c: c.rt == c.pre.get('_metadata', c.ref('self')))]))

    R.add(Contract(N + 'ConfigNode.ayns.has_priority_over', [node(), node('other'), P.val('if_equal', 'bool')],
                   requires=_valid('self', 'other'), pure=True, result=P.val('result', 'bool'),
                   ensures=[('C03.higher-priority-wins-else-if_equal',
                             lambda c: b_of(c.rt) == S.stronger(c.pre, c.ref('self'), c.pre, c.ref('other'), b_of(c['if_equal'])))]))
    # same node on both sides (a node compared with itself)
    R.add(Contract(N + 'ConfigNode.ayns.has_priority_over', [node(), P.pyval('other', None), P.val('if_equal', 'bool')], name='alias',
                   requires=_valid('self'), pure=True, opts={'verify_only': True, 'setup': _alias_other, 'no_search': True},
                   ensures=[('C03.self-vs-self-is-if_equal', lambda c: b_of(c.rt) == b_of(c['if_equal']))]))

    # ---- gates -------------------------------------------------------------------------------
    R.add(Contract(N + 'ConfigNode.ayns._require_safe', [node(), P.path('path')], requires=_valid('self'), pure=True,
                   raises=[Raises('UnsafeError', when=lambda c: z3.Not(S.safe(c.pre, c.ref('self'))), exact=True, name='C07.UnsafeError-iff-unsafe')],
                   ensures=[('C07.returns-only-if-safe', lambda c: S.safe(c.pre, c.ref('self')))]))
    R.add(Contract(N + 'ConfigNode.ayns._require_all_new',
                   [P.node('self', 'ConfigNode'), P.path('path'), P.val('reason', 'any'), P.pset('exceptions', optional=True), P.val('include_self', 'bool')],
                   name='leaf', requires=lambda c: z3.And(S.valid_flags(c.pre, c.ref('self')), z3.Not(S.is_composed(c.eng, c.pre.cls(c.ref('self'))))),
                   pure=True, opts={'callee': False},
                   raises=[Raises('ValueError', exact=True, name='C08.raises-iff-notnew-and-not-excepted',
                                  when=lambda c: z3.And(b_of(c['include_self']), z3.Not(S.allow_new(c.pre, c.ref('self'))),
                                                        z3.Not(_in_pset(c, 'exceptions', 'path'))))]))

    # ---- _replace_self / _replace_other ------------------------------------------------------
    for fn in ('_replace_self', '_replace_other'):
        R.add(Contract(N + 'ConfigNode.' + fn, [node(), node('other'), P.const('allow_promotions', False)], name='no-promotion',
                       requires=(lambda c: z3.And(S.valid_flags(c.pre, c.ref('self')), S.valid_flags(c.pre, c.ref('other')),
                                                  z3.Not(S.is_composed(c.eng, c.pre.cls(c.ref('self')))))) if fn == '_replace_self' else
                                (lambda c: z3.And(S.valid_flags(c.pre, c.ref('self')), S.valid_flags(c.pre, c.ref('other')))),
                       modifies=lambda c: [(f, [c.ref('self')]) for f in ('_priority', '_delete', '_safe', '_implicit_safe', '_default_safe', '_metadata')],
                       result=lambda c, it: c.a['self'],
                       ensures=_replace_ensures(fn), opts={'callee': True}, props=('C03', 'C04', 'C07')))


def _alias_other(it, fr, sc):
    fr.loc['other'] = fr.loc['self']


def _in_pset(c, setname, pathname):
    v = c.a[setname]
    t = v.t
    return z3.And(z3.Not(is_none(t)), z3.Select(c.pre.get('$pset', r_of(t)), c.a[pathname].s))


def _replace_ensures(fn):
    def res_is_self(c):
        return c.rt == c['self']

    def monotone(c):
        s = c.ref('self')
        o = c.ref('other')
        return z3.Implies(S.safe(c.post, s), z3.And(S.safe(c.pre, s), S.safe(c.pre, o)))

    def valid_after(c):
        return S.valid_flags(c.post, c.ref('self'))

    def md_ok(c):
        s, o = c.ref('self'), c.ref('other')
        new = S.md(c.post, s)
        if fn == '_replace_self':
            return S.md_union(new, S.md(c.pre, s), S.md(c.pre, o))     # other (the winner) wins on common keys
        return S.md_union(new, S.md(c.pre, o), S.md(c.pre, s))         # self (the winner) wins

    out = [('result-is-self', res_is_self),
           ('C07.merge-only-spreads-unsafety', monotone),
           ('flags-stay-valid', valid_after),
           ('C03.metadata-union-winner-wins-no-key-lost', md_ok)]
    if fn == '_replace_self':
        out.append(('C03+C04.takes-priority-and-delete-of-winner',
                    lambda c: z3.And(c.post.get('_priority', c.ref('self')) == c.pre.get('_priority', c.ref('other')),
                                     c.post.get('_delete', c.ref('self')) == c.pre.get('_delete', c.ref('other')))))
    else:
        out.append(('C03.winner-keeps-priority-and-delete',
                    lambda c: z3.And(c.post.get('_priority', c.ref('self')) == c.pre.get('_priority', c.ref('self')),
                                     c.post.get('_delete', c.ref('self')) == c.pre.get('_delete', c.ref('self')))))
    return out


def register_leaf_merge(R):
    node = lambda n='self': P.node(n, 'ConfigNode')
    W = ('_priority', '_delete', '_safe', '_implicit_safe', '_default_safe', '_metadata')

    def ens(c):
        s, o = c.ref('self'), c.ref('other')
        older_wins = S.prio(c.pre, s) > S.prio(c.pre, o)
        win = z3.If(older_wins, s, o)
        lose = z3.If(older_wins, o, s)
        res = r_of(c.rt)
        return [('C02+C03.older-wins-only-if-strictly-stronger-else-newer', c.rt == z3.If(older_wins, c['self'], c['other'])),
                ('C03.winner-keeps-its-priority-and-delete-flag', z3.And(c.post.get('_priority', res) == c.pre.get('_priority', win),
                                                                        c.post.get('_delete', res) == c.pre.get('_delete', win))),
                ('C03.metadata-of-both-kept-winner-wins', S.md_union(S.md(c.post, res), S.md(c.pre, lose), S.md(c.pre, win))),
                ('C07.result-safe-only-if-both-were', z3.Implies(S.safe(c.post, res), z3.And(S.safe(c.pre, s), S.safe(c.pre, o)))),
                ('C02.loser-untouched', z3.And([c.post.get(f, lose) == c.pre.get(f, lose) for f in W])),
                ('flags-stay-valid', S.valid_flags(c.post, res))]

    R.add(Contract(N + 'ConfigNode.ayns.on_merge_impl', [node(), P.path('path'), node('other')],
                   requires=lambda c: z3.And(S.valid_flags(c.pre, c.ref('self')), S.valid_flags(c.pre, c.ref('other'))),
                   modifies=lambda c: [(f, [c.ref('self'), c.ref('other')]) for f in W],
                   ensures=[('leaf-merge', ens)], result=lambda c, it: SV(z3.If(S.prio(c.pre, c.ref('self')) > S.prio(c.pre, c.ref('other')), c['self'], c['other'])),
                   props=('C02', 'C03', 'C07'), opts={'callee': True}))


def _reg_all(R):
    register(R)
    register_leaf_merge(R)
