"""Bounded stand-ins for whole builds: streams / includes / !path (C06), tag transparency (C01), dump-parse (C18),
deepcopy / pickle (C19), eval programs (C12).  Labelled bounded."""
import copy
import json
import os
import pickle
import random
import shutil
import subprocess
import sys
import tempfile
from pyvc.tasks import Bounded
from . import b_docs as G
from .b_merge import load, Runner, build, to_plain, n_cases, unordered_eq, typed_eq, gen_sequence

SCRATCH = os.path.join(os.path.dirname(os.path.dirname(os.path.abspath(__file__))), '.work')


def scratch_dir():
    os.makedirs(SCRATCH, exist_ok=True)
    return tempfile.mkdtemp(prefix='b_', dir=SCRATCH)


def build_files(ay, args, cwd=None, **kw):
    old = os.getcwd()
    try:
        if cwd:
            os.chdir(cwd)
        try:
            return ('ok', to_plain(ay.Config.build(*args, **kw)))
        except Exception as e:
            return ('err', type(e).__name__, str(e)[:300])
    finally:
        os.chdir(old)


# ------------------------------------------------------------------------------------------------ C06
def run_c06(repo, tier, seed, only=None):
    ay = load(repo)
    rng = random.Random(60000 + seed)
    R = Runner('C06')
    name = 'bounded:C06.sources-multidoc-and-includes-agree'
    for it in range(n_cases(tier, 60, 800)):
        docs = gen_sequence(rng, tags=('force', 'weak', 'del', 'merge'), no_prio_in_seq=True)
        texts = [G.render(d) for d in docs]
        base = build(ay, texts)
        d = scratch_dir()
        try:
            sub = os.path.join(d, 'sub')
            os.makedirs(sub)
            names = []
            for i, t in enumerate(texts):
                # files spread over two directories; includes resolve relative to the including file first
                fn = os.path.join(sub if i % 2 else d, f'f{i}.yaml')
                with open(fn, 'w') as f:
                    f.write(t + '\n')
                names.append(fn)
            variants = {}
            variants['multi-document source'] = ('\n---\n'.join(texts),)
            with open(os.path.join(d, 'master_list.yaml'), 'w') as f:
                f.write('!include [' + ', '.join(os.path.relpath(n, d) for n in names) + ']\n')
            variants['top-level include of a list'] = (os.path.join(d, 'master_list.yaml'),)
            with open(os.path.join(d, 'master_docs.yaml'), 'w') as f:
                f.write('\n---\n'.join('!include ' + os.path.relpath(n, d) for n in names) + '\n')
            variants['one include per document'] = (os.path.join(d, 'master_docs.yaml'),)
            # nested: an include file that itself includes the first half
            h = max(1, len(names) // 2)
            with open(os.path.join(sub, 'first_half.yaml'), 'w') as f:
                f.write('!include [' + ', '.join(os.path.relpath(n, sub) for n in names[:h]) + ']\n')
            with open(os.path.join(d, 'master_nested.yaml'), 'w') as f:
                f.write('!include [' + ', '.join(['sub/first_half.yaml'] + [os.path.relpath(n, d) for n in names[h:]]) + ']\n')
            variants['nested includes'] = (os.path.join(d, 'master_nested.yaml'),)
            for label, args in variants.items():
                raw = label == 'multi-document source'
                got = build_files(ay, args, cwd=d, raw_yaml=raw)
                R.case((label,) + tuple(texts), {'docs': texts, 'variant': label})
                same = (got[0] == base[0]) and (got[0] == 'err' or unordered_eq(got[1], base[1]))
                if not same:
                    R.fail(name, f'docs={texts}: as separate sources {base!r}; as {label}: {got!r}'[:800], {'family': 'c06', 'docs': texts, 'variant_label': label})
            # key: !include [...]  equals the merged content under key
            with open(os.path.join(d, 'keyed.yaml'), 'w') as f:
                f.write('k: !include [' + ', '.join(os.path.relpath(n, d) for n in names) + ']\n')
            got = build_files(ay, (os.path.join(d, 'keyed.yaml'),), cwd=d, raw_yaml=False)
            R.cases += 1
            if base[0] == 'ok':
                if not (got[0] == 'ok' and unordered_eq(got[1], {'k': base[1]})):
                    R.fail('bounded:C06.include-under-a-key-places-the-merged-content-there', f'docs={texts}: merged {base!r}; key: !include gave {got!r}'[:800], {'family': 'c06', 'docs': texts})
            # a missing file fails the build with an error naming it
            with open(os.path.join(d, 'missing.yaml'), 'w') as f:
                f.write('!include [' + os.path.relpath(names[0], d) + ', nowhere_to_be_found.yaml]\n')
            got = build_files(ay, (os.path.join(d, 'missing.yaml'),), cwd=d, raw_yaml=False)
            R.cases += 1
            if not (got[0] == 'err' and 'nowhere_to_be_found.yaml' in got[2]):
                R.fail('bounded:C06.a-file-found-nowhere-fails-the-build-naming-it', f'got {got!r}'[:500], {'family': 'c06', 'docs': texts})
            # !path with a file-relative reference point, reached directly and through an include from another directory
            with open(os.path.join(sub, 'p.yaml'), 'w') as f:
                f.write('p: !path:parent [data, x.bin]\nq: !path:file [y]\n')
            with open(os.path.join(d, 'inc_p.yaml'), 'w') as f:
                f.write('!include sub/p.yaml\n')
            a = build_files(ay, (os.path.join(sub, 'p.yaml'),), cwd=d, raw_yaml=False)
            b = build_files(ay, (os.path.join(d, 'inc_p.yaml'),), cwd=sub, raw_yaml=False)
            R.cases += 1
            exp_p = os.path.normpath(os.path.join(sub, 'data', 'x.bin'))
            ok = a[0] == 'ok' and b[0] == 'ok' and os.path.abspath(os.path.join(d, str(a[1]['p']))) == exp_p and \
                os.path.abspath(os.path.join(sub, str(b[1]['p']))) == exp_p
            if not ok:
                R.fail('bounded:C06.file-relative-path-denotes-a-location-relative-to-the-file-it-was-written-in', f'direct {a!r}, via include {b!r}, expected {exp_p}'[:600], {'family': 'c06', 'docs': []})
        finally:
            shutil.rmtree(d, ignore_errors=True)
    return R.result()


def register(R):
    R.tasks.append(Bounded('bounded:C06-streams-and-includes', ('C06',), run_c06,
                           'merge sequences of 2-4 generated documents (depth<=3) split across sources / one multi-document source / includes in two directories / nested includes; quick 60, thorough 800 sequences',
                           stands_in_for='Builder.add_source, yaml.parse, SubBuilder.build, IncludeNode.on_preprocess_impl (file system), ComposedNode.__init__ around already parsed stages, PathNode'))


# ------------------------------------------------------------------------------------------------ C01
def run_c01(repo, tier, seed, only=None):
    import yaml
    ay = load(repo)
    rng = random.Random(10000 + seed)
    R = Runner('C01')
    name = 'bounded:C01.single-source-evaluates-to-its-plain-yaml-content'
    fixed = ['!force {a: {b: [1, 2]}}', '{_x: 1, y: {_z: [1, {_w: 2}]}}', '{a: !del [1, [2, 3]], b: !merge {c: !weak 1}}', '{a: !new {b: !unsafe [1, 2]}}',
             "{a: !metadata{{'k': 1}} 5, b: !metadata{{'priority': 1, 'm': 'x'}} [1, 2]}", '{1: a, 2.5: b, c: 1.5, d: null, e: true, f: "1"}']
    cases = [(t, None) for t in fixed]
    for _ in range(n_cases(tier, 300, 5000)):
        g = G.Gen(rng, tags=('force', 'weak', 'del', 'merge', 'new', 'unsafe'), p_tag=0.4, int_keys=True)
        g.allow_remove_idiom = True
        d = g.map(3, top=True)
        if rng.random() < 0.3:
            d = (d[0], d[1], rng.choice(['force', 'weak', 'del', 'merge', 'new', 'unsafe']))
        cases.append((G.render(d), G.render(G.strip_tags(d))))
    for text, plain_text in cases:
        if plain_text is None:
            import re
            plain_text = re.sub(r'![a-z]+(\{\{.*?\}\})?\s', '', text)
        try:
            exp = yaml.load(plain_text, Loader=yaml.Loader)
        except Exception as e:
            continue
        got = build(ay, [text])
        R.case(text, {'doc': text, 'tag_erased': plain_text})
        if got[0] != 'ok' or not typed_eq(got[1], exp):
            R.fail(name, f'doc={text!r}: expected (PyYAML on the tag-erased text) {exp!r}, got {got!r}'[:700], {'family': 'c01', 'docs': [text]})
    return R.result()


def register_c01(R):
    R.tasks.append(Bounded('bounded:C01-tag-transparency', ('C01',), run_c01,
                           'mapping documents of depth<=3, width<=3, keys from {a,b,x,q,_u,0,1}, at most one merge-control tag per node (any placement), plus metadata syntax samples; quick 300 / thorough 5000 documents',
                           stands_in_for='PyYAML composition/resolution, _make_node, ConfigNodeMeta type deduction, ComposedNode.__init__, container evaluation (end to end through Config.build)'))


def _reg_all(R):
    register(R)
    register_c01(R)
