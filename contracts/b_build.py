"""Bounded stand-ins for whole builds: streams / includes / !path (C06), tag transparency (C01), dump-parse (C18),
deepcopy / pickle (C19), eval programs (C12).  Labelled bounded."""
import copy
import json
import os
import pickle
import random
import shutil
import subprocess
import sys
import tempfile
from pyvc.tasks import Bounded
from . import b_docs as G
from .b_merge import load, Runner, build, to_plain, n_cases, unordered_eq, typed_eq, gen_sequence

SCRATCH = os.path.join(os.path.dirname(os.path.dirname(os.path.abspath(__file__))), '.work')


def scratch_dir():
    os.makedirs(SCRATCH, exist_ok=True)
    return tempfile.mkdtemp(prefix='b_', dir=SCRATCH)


def build_files(ay, args, cwd=None, **kw):
    old = os.getcwd()
    try:
        if cwd:
            os.chdir(cwd)
        try:
            return ('ok', to_plain(ay.Config.build(*args, **kw)))
        except Exception as e:
            return ('err', type(e).__name__, str(e)[:300])
    finally:
        os.chdir(old)


# ------------------------------------------------------------------------------------------------ C06
def run_c06(repo, tier, seed, only=None):
    ay = load(repo)
    rng = random.Random(60000 + seed)
    R = Runner('C06')
    name = 'bounded:C06.sources-multidoc-and-includes-agree'
    for it in range(n_cases(tier, 60, 800)):
        docs = gen_sequence(rng, tags=('force', 'weak', 'del', 'merge'), no_prio_in_seq=True)
        texts = [G.render(d) for d in docs]
        base = build(ay, texts)
        d = scratch_dir()
        try:
            sub = os.path.join(d, 'sub')
            os.makedirs(sub)
            names = []
            for i, t in enumerate(texts):
                # files spread over two directories; includes resolve relative to the including file first
                fn = os.path.join(sub if i % 2 else d, f'f{i}.yaml')
                with open(fn, 'w') as f:
                    f.write(t + '\n')
                names.append(fn)
            variants = {}
            variants['multi-document source'] = ('\n---\n'.join(texts),)
            with open(os.path.join(d, 'master_list.yaml'), 'w') as f:
                f.write('!include [' + ', '.join(os.path.relpath(n, d) for n in names) + ']\n')
            variants['top-level include of a list'] = (os.path.join(d, 'master_list.yaml'),)
            with open(os.path.join(d, 'master_docs.yaml'), 'w') as f:
                f.write('\n---\n'.join('!include ' + os.path.relpath(n, d) for n in names) + '\n')
            variants['one include per document'] = (os.path.join(d, 'master_docs.yaml'),)
            # nested: an include file that itself includes the first half
            h = max(1, len(names) // 2)
            with open(os.path.join(sub, 'first_half.yaml'), 'w') as f:
                f.write('!include [' + ', '.join(os.path.relpath(n, sub) for n in names[:h]) + ']\n')
            with open(os.path.join(d, 'master_nested.yaml'), 'w') as f:
                f.write('!include [' + ', '.join(['sub/first_half.yaml'] + [os.path.relpath(n, d) for n in names[h:]]) + ']\n')
            variants['nested includes'] = (os.path.join(d, 'master_nested.yaml'),)
            for label, args in variants.items():
                raw = label == 'multi-document source'
                got = build_files(ay, args, cwd=d, raw_yaml=raw)
                R.case((label,) + tuple(texts), {'docs': texts, 'variant': label})
                same = (got[0] == base[0]) and (got[0] == 'err' or unordered_eq(got[1], base[1]))
                if not same:
                    R.fail(name, f'docs={texts}: as separate sources {base!r}; as {label}: {got!r}'[:800], {'family': 'c06', 'docs': texts, 'variant_label': label})
            # key: !include [...]  equals the merged content under key
            with open(os.path.join(d, 'keyed.yaml'), 'w') as f:
                f.write('k: !include [' + ', '.join(os.path.relpath(n, d) for n in names) + ']\n')
            got = build_files(ay, (os.path.join(d, 'keyed.yaml'),), cwd=d, raw_yaml=False)
            R.cases += 1
            if base[0] == 'ok':
                if not (got[0] == 'ok' and unordered_eq(got[1], {'k': base[1]})):
                    R.fail('bounded:C06.include-under-a-key-places-the-merged-content-there', f'docs={texts}: merged {base!r}; key: !include gave {got!r}'[:800], {'family': 'c06', 'docs': texts})
            # a missing file fails the build with an error naming it
            with open(os.path.join(d, 'missing.yaml'), 'w') as f:
                f.write('!include [' + os.path.relpath(names[0], d) + ', nowhere_to_be_found.yaml]\n')
            got = build_files(ay, (os.path.join(d, 'missing.yaml'),), cwd=d, raw_yaml=False)
            R.cases += 1
            if not (got[0] == 'err' and 'nowhere_to_be_found.yaml' in got[2]):
                R.fail('bounded:C06.a-file-found-nowhere-fails-the-build-naming-it', f'got {got!r}'[:500], {'family': 'c06', 'docs': texts})
            # !path with a file-relative reference point, reached directly and through an include from another directory
            with open(os.path.join(sub, 'p.yaml'), 'w') as f:
                f.write('p: !path:parent [data, x.bin]\nq: !path:file [y]\n')
            with open(os.path.join(d, 'inc_p.yaml'), 'w') as f:
                f.write('!include sub/p.yaml\n')
            a = build_files(ay, (os.path.join(sub, 'p.yaml'),), cwd=d, raw_yaml=False)
            b = build_files(ay, (os.path.join(d, 'inc_p.yaml'),), cwd=sub, raw_yaml=False)
            R.cases += 1
            exp_p = os.path.normpath(os.path.join(sub, 'data', 'x.bin'))
            ok = a[0] == 'ok' and b[0] == 'ok' and os.path.abspath(os.path.join(d, str(a[1]['p']))) == exp_p and \
                os.path.abspath(os.path.join(sub, str(b[1]['p']))) == exp_p
            if not ok:
                R.fail('bounded:C06.file-relative-path-denotes-a-location-relative-to-the-file-it-was-written-in', f'direct {a!r}, via include {b!r}, expected {exp_p}'[:600], {'family': 'c06', 'docs': []})
            # parent(n) for n up to and beyond the depth of the name the file was given by: the location must not depend on whether the
            # file was named absolutely, relatively to the working directory, or reached through an include
            with open(os.path.join(sub, 'pn.yaml'), 'w') as f:
                f.write(''.join(f'p{n}: !path:parent({n}) [data]\n' for n in range(5)))
            with open(os.path.join(d, 'inc_pn.yaml'), 'w') as f:
                f.write('!include sub/pn.yaml\n')
            absname = os.path.join(sub, 'pn.yaml')
            routes = {'absolute name': ((absname,), d), 'relative name': ((os.path.relpath(absname, d),), d), 'relative name from its own directory': (('pn.yaml',), sub),
                      'include from a file named relatively': (('inc_pn.yaml',), d)}
            for label, (args_, cwd_) in routes.items():
                res = build_files(ay, args_, cwd=cwd_, raw_yaml=False)
                R.cases += 1
                bad = None
                if res[0] != 'ok':
                    bad = f'build failed: {res!r}'
                else:
                    for n in range(5):
                        anc = absname
                        for _ in range(n + 1):
                            anc = os.path.dirname(anc)
                        want = os.path.normpath(os.path.join(anc, 'data'))
                        have = os.path.normpath(os.path.join(cwd_, str(res[1][f'p{n}'])))
                        if have != want:
                            bad = f'parent({n}) denotes {have}, expected {want}'
                            break
                if bad:
                    R.fail('bounded:C06.parent-n-denotes-the-same-location-however-the-file-was-reached', f'{label}: {bad}'[:500], {'family': 'c06', 'docs': []})
            # a name that exists both next to the including file and in the working directory: the one next to the including file is taken
            # (top-level include, include under a key, and the including file itself reached through an include from the working directory)
            if it < 8:
                for fn_, who in ((os.path.join(sub, 'both.yaml'), 'next-to-includer'), (os.path.join(d, 'both.yaml'), 'cwd')):
                    with open(fn_, 'w') as f:
                        f.write('{who: %s}\n' % who)
                with open(os.path.join(sub, 'inc_both.yaml'), 'w') as f:
                    f.write('!include both.yaml\n')
                with open(os.path.join(sub, 'key_both.yaml'), 'w') as f:
                    f.write('k: !include both.yaml\n')
                with open(os.path.join(d, 'outer_both.yaml'), 'w') as f:
                    f.write('!include sub/inc_both.yaml\n')
                for label, arg, want in (('top-level include', os.path.join(sub, 'inc_both.yaml'), {'who': 'next-to-includer'}),
                                         ('include under a key', os.path.join(sub, 'key_both.yaml'), {'k': {'who': 'next-to-includer'}}),
                                         ('including file reached through an include', os.path.join(d, 'outer_both.yaml'), {'who': 'next-to-includer'}),
                                         ('file only in the working directory (fallback)', None, {'who': 'cwd'})):
                    if arg is None:
                        os.remove(os.path.join(sub, 'both.yaml'))
                        arg = os.path.join(sub, 'inc_both.yaml')
                    got = build_files(ay, (arg,), cwd=d, raw_yaml=False)
                    R.cases += 1
                    if not (got[0] == 'ok' and unordered_eq(got[1], want)):
                        R.fail('bounded:C06.included-name-resolves-next-to-the-including-file-first-then-in-the-working-directory',
                               f'{label}: expected {want!r}, got {got!r}'[:500], {'family': 'c06', 'docs': []})
        finally:
            shutil.rmtree(d, ignore_errors=True)
    return R.result()


def register(R):
    R.tasks.append(Bounded('bounded:C06-streams-and-includes', ('C06',), run_c06,
                           'merge sequences of 2-4 generated documents (depth<=3) split across sources / one multi-document source / includes in two directories / nested includes; quick 60, thorough 800 sequences',
                           stands_in_for='Builder.add_source, yaml.parse, SubBuilder.build, IncludeNode.on_preprocess_impl (file system), ComposedNode.__init__ around already parsed stages, PathNode'))


# ------------------------------------------------------------------------------------------------ C01
def run_c01(repo, tier, seed, only=None):
    import yaml
    ay = load(repo)
    rng = random.Random(10000 + seed)
    R = Runner('C01')
    name = 'bounded:C01.single-source-evaluates-to-its-plain-yaml-content'
    fixed = ['!force {a: {b: [1, 2]}}', '{_x: 1, y: {_z: [1, {_w: 2}]}}', '{a: !del [1, [2, 3]], b: !merge {c: !weak 1}}', '{a: !new {b: !unsafe [1, 2]}}',
             "{a: !metadata{{'k': 1}} 5, b: !metadata{{'priority': 1, 'm': 'x'}} [1, 2]}", '{1: a, 2.5: b, c: 1.5, d: null, e: true, f: "1"}',
             # float and int keys whose value is a container (with and without tags), at several depths
             '{stages: [{a: 1}, {b: 2}], other: 1}', '{stages: 5, builder: {stages: [1]}}', '!force {stages: [{lr: 0.1}], builder: 1}',
             '{a: {2.5: {b: 1}}}', '{a: {2.5: !force [1, 2]}}', '{0.5: [], b: 1}', '{a: !del {b: {c: [1, {1.5: {d: [2, 3]}}]}}}', '{-1: {x: [1]}, 7: !merge [2]}']
    cases = [(t, None) for t in fixed]
    for _ in range(n_cases(tier, 300, 5000)):
        g = G.Gen(rng, tags=('force', 'weak', 'del', 'merge', 'new', 'unsafe'), p_tag=0.4, int_keys=True)
        g.allow_remove_idiom = True
        d = g.map(3, top=True)
        if rng.random() < 0.3:
            d = (d[0], d[1], rng.choice(['force', 'weak', 'del', 'merge', 'new', 'unsafe']))
        cases.append((G.render(d), G.render(G.strip_tags(d))))
    # metadata syntax `{{...}}` on several nodes of one source (the source text is rewritten block by block before PyYAML sees it)
    for _ in range(n_cases(tier, 40, 600)):
        g = G.Gen(rng, tags=('force', 'weak', 'merge'), p_tag=0.2)
        d = g.map(2, top=True)
        plain_text = G.render(G.strip_tags(d))
        items = []
        nblocks = rng.randint(1, 5)
        for i in range(nblocks):
            md = rng.choice(["'k': %d" % i, "'priority': 1, 'm': 'x%d'" % i, "'note': 'a b', 'n': %d" % (i * 11), "'delete': False"])
            val = rng.choice(['5', "'v'", '[1, 2]', '{z: 1}', 'null'])
            items.append((f'md{i}', f'!metadata{{{{{md}}}}} {val}', val))
        text = G.render(d)[:-1] + (', ' if len(G.render(d)) > 2 else '') + ', '.join(f'{k}: {t}' for k, t, _ in items) + '}'
        ptext = plain_text[:-1] + (', ' if len(plain_text) > 2 else '') + ', '.join(f'{k}: {v}' for k, _, v in items) + '}'
        cases.append((text, ptext))
    for text, plain_text in cases:
        if plain_text is None:
            import re
            plain_text = re.sub(r'![a-z]+(\{\{.*?\}\})?\s', '', text)
        try:
            exp = yaml.load(plain_text, Loader=yaml.Loader)
        except Exception as e:
            continue
        got = build(ay, [text])
        R.case(text, {'doc': text, 'tag_erased': plain_text})
        if got[0] != 'ok' or not typed_eq(got[1], exp):
            R.fail(name, f'doc={text!r}: expected (PyYAML on the tag-erased text) {exp!r}, got {got!r}'[:700], {'family': 'c01', 'docs': [text]})
    return R.result()


def register_c01(R):
    R.tasks.append(Bounded('bounded:C01-tag-transparency', ('C01',), run_c01,
                           'mapping documents of depth<=3, width<=3, keys from {a,b,x,q,_u,0,1}, at most one merge-control tag per node (any placement), plus metadata syntax samples; quick 300 / thorough 5000 documents',
                           stands_in_for='PyYAML composition/resolution, _make_node, ConfigNodeMeta type deduction, ComposedNode.__init__, container evaluation (end to end through Config.build)'))


def _reg_all(R):
    register(R)
    register_c01(R)


# ------------------------------------------------------------------------------------------------ C19 / C18
def node_signature(n, path=()):
    """kind, content-relevant fields and EFFECTIVE flags of every node of a tree (what merging and evaluation can observe)"""
    out = []
    a = n.ayns
    info = (type(n).__name__, a.priority, a.delete, a.explicit_delete, a.allow_new, a.safe, dict(a.metadata), a.source_file)
    extra = ()
    d = getattr(n, '__dict__', {})
    for k in ('_func', 'ref_point', 'filenames', 'persistent_namespace'):
        if k in d:
            extra += ((k, str(d[k]) if k == 'ref_point' else repr(d[k])),)
    out.append((path, info, extra))
    if hasattr(a, 'named_children') and '_children' in d:
        # both views
        if isinstance(n, dict):
            assert list(dict.keys(n)) == [k for k, _ in a.named_children()], (path, 'views differ')
        if isinstance(n, list):
            assert [id(x) for x in list.__iter__(n)] == [id(c) for _, c in a.named_children()], (path, 'views differ')
        for k, c in a.named_children():
            out.extend(node_signature(c, path + (k,)))
    else:
        try:
            out.append((path, 'value', repr(n.ayns.native_value)))
        except Exception as e:
            out.append((path, 'value-error', type(e).__name__))
    return out


def all_ids(n):
    out = {id(n)}
    d = getattr(n, '__dict__', {})
    if '_children' in d:
        for c in d['_children'].values():
            out |= all_ids(c)
    return out


FULLTAGS = ('force', 'weak', 'del', 'merge', 'new', 'unsafe')


def gen_rich_doc(rng):
    """documents over the wider vocabulary: merge-control tags plus dynamic / structural node kinds as leaves"""
    g = G.Gen(rng, tags=FULLTAGS, p_tag=0.35, int_keys=True)
    d = g.map(3, top=True)
    specials = ["!xref a", "!required", "!call:builtins.dict {x: 1}", "!bind:builtins.dict {y: !force 2}", "!eval '1 + 1'", "f'{1}x'", "!path [a, b]",
                "!path:parent [c]", "!import os.path", "!null", "!metadata{{'k': 1, 'priority': 1}} 7", "!call:builtins.list [[1, 2]]", "!append [1]", "!prev a",
                "!bind:os.path.split{{ 'delete': False }} {x: 1}", "!call:builtins.dict{{ 'delete': True, 'priority': 1 }} {x: 1}",
                "!call:builtins.dict{{ 'delete': False, 'allow_new': False }} {x: !weak 1}",
                # a container written with an encoded metadata block whose composed child carries the SAME explicit delete flag
                "!metadata{{'delete': False, 'note': 1}} {l: !merge [{x: 1}], k: 2}", "!metadata{{'delete': True, 'note': 1}} {l: !del {x: 1}}",
                "!weak {a: !del {b: !del {c: 1}}}", "!call:builtins.dict{{'delete': False}} {l: !merge [{x: 1}]}", "!unsafe {a: !merge {b: !merge [1]}}",
                # strings that only survive a dump when they are quoted (after an earlier scalar was written in unquoted mode)
                "'x: y'", "' lead'", "'a #b'", "'*star'", "['[q', 'k: v']", "{'k: 1': 2}"]
    text = G.render(d)
    items = []
    for _ in range(rng.randint(0, 3)):
        items.append(f's{len(items)}: {rng.choice(specials)}')
    if items:
        text = text[:-1] + (', ' if len(text) > 2 else '') + ', '.join(items) + '}'
    return text


def run_c19(repo, tier, seed, only=None):
    ay = load(repo)
    import awesomeyaml.yaml as ayyaml
    rng = random.Random(19000 + seed)
    R = Runner('C19')
    # trees built from Python data whose keys are spelled like private attributes of the node classes (a copy restores the state
    # first and re-attaches the children afterwards: the children must not be mistaken for attributes)
    for data in ({'_idx': 1, 'a': 2}, {'a': [{'_metadata': 1, 'k': {'_priority': 5, '_safe': 0}}]}, {'opts': {'_children': 1, '_delete': 2, '_source_file': 'f'}},
                 {'_allow_new': {'_implicit_safe': [1]}},
                 {'_delete': True, '_implicit_delete': 'a', '_allow_new': 'b', '_implicit_allow_new': 'c', '_safe': 'd', '_implicit_safe': 'e', 'z': {'q': ['f']}}):
        from awesomeyaml.nodes.dict import ConfigDict
        try:
            tree = ConfigDict(data)
            sig = node_signature(tree)
        except Exception as e:
            R.skip(repr(data), e)
            continue
        R.case(repr(data), {'python_data': repr(data)})
        for label, mk in (('deepcopy', lambda t: copy.deepcopy(t)), ('pickle', lambda t: pickle.loads(pickle.dumps(t)))):
            try:
                ok = node_signature(mk(tree)) == sig
                why = 'differs from the original'
            except Exception as e:
                ok, why = False, f'failed with {type(e).__name__}: {e}'[:200]
            if not ok:
                R.fail(f'bounded:C19.{label}-reproduces-the-tree', f'python data {data!r}: {label} {why}', {'family': 'c19', 'docs': [repr(data)]})
    # recorded finding (KNOWN_FINDINGS.txt): one Python object used at two positions becomes ONE node with two parents (type-deduction
    # memo); a node has a single set of inherited flags, so the parent attached last decides them, and a deep copy attaches in another order
    from awesomeyaml.nodes.dict import ConfigDict as _CD
    shared = _CD({'a': 1, 'z': [1]})
    R.cases += 1
    if node_signature(copy.deepcopy(shared)) != node_signature(shared):
        R.fail('bounded:C19.known:node-shared-between-a-mapping-and-a-list', "ConfigDict({'a': 1, 'z': [1]}): the node of 1 is shared by the mapping and the list; the original has inherited delete None "
               "at a, its deep copy True", {'family': 'c19', 'docs': ["{'a': 1, 'z': [1]}"]})
    for _ in range(n_cases(tier, 250, 4000)):
        text = gen_rich_doc(rng)
        try:
            b = ay.Builder()
            b.add_source(text, raw_yaml=True, filename='mem.yaml', safe=rng.random() < 0.8)
            tree = b.stages[0]
        except Exception as e:
            R.skip(text, e)
            continue
        R.case(text, {'doc': text})
        try:
            sig = node_signature(tree)
        except AssertionError as e:
            R.fail('bounded:C19.checker-precondition', f'doc={text!r}: parsed tree inconsistent {e}', {'family': 'c19', 'docs': [text]})
            continue
        for label, mk in (('deepcopy', lambda t: copy.deepcopy(t)), ('pickle', lambda t: pickle.loads(pickle.dumps(t)))):
            try:
                cp = mk(tree)
                sig2 = node_signature(cp)
            except Exception as e:
                R.fail(f'bounded:C19.{label}-reproduces-the-tree', f'doc={text!r}: {label} failed with {type(e).__name__}: {e}'[:500], {'family': 'c19', 'docs': [text]})
                continue
            R.cases += 1
            if sig2 != sig:
                diff = [(x, y) for x, y in zip(sig, sig2) if x != y][:2]
                R.fail(f'bounded:C19.{label}-reproduces-kinds-content-flags-and-metadata', f'doc={text!r}: first differences (original, copy): {diff!r}'[:900], {'family': 'c19', 'docs': [text]})
            if all_ids(tree) & all_ids(cp):
                R.fail(f'bounded:C19.{label}-shares-no-node-with-the-original', f'doc={text!r}', {'family': 'c19', 'docs': [text]})
            # merges like the original: as older and as newer stage against another document
            other = G.render(G.Gen(rng, tags=('force', 'weak', 'del', 'merge'), p_tag=0.3).map(2, top=True))

            def merged(first, second):
                try:
                    bb = ay.Builder()
                    bb.stages = [first, second]
                    return ('ok', node_signature(bb.build()))
                except Exception as e:
                    return ('err', type(e).__name__)
            def parse(t):
                bb = ay.Builder()
                bb.add_source(t, raw_yaml=True, filename='o.yaml')
                return bb.stages[0]
            r1 = merged(mk(tree), parse(other))
            r2 = merged(mk(mk(tree)), parse(other))
            r3 = merged(parse(other), mk(tree))
            r4 = merged(parse(other), mk(mk(tree)))
            if r1 != r2 or r3 != r4:
                R.fail(f'bounded:C19.{label}-of-a-copy-merges-like-the-copy', f'doc={text!r} other={other!r}: {str(r1)[:200]} vs {str(r2)[:200]}'[:900], {'family': 'c19', 'docs': [text, other]})
    return R.result()


def run_c18(repo, tier, seed, only=None):
    ay = load(repo)
    import awesomeyaml.yaml as ayyaml
    rng = random.Random(18000 + seed)
    R = Runner('C18')
    # recorded findings, re-confirmed on every run
    for kname, text in (('delete-flag-equal-to-type-default-is-elided', 'a: !del []'), ('priority-of-a-null-value-is-dropped', 'a: !force')):
        try:
            t1 = list(ayyaml.parse(text))[0]
            d1 = ayyaml.dump(t1)
            t2 = list(ayyaml.parse(d1))[0]
            R.cases += 1
            if node_signature(t1) != node_signature(t2):
                R.fail('bounded:C18.known:' + kname, f'doc={text!r} dumps as {d1!r}; the re-parsed tree differs in flags', {'family': 'c18', 'docs': [text]})
        except Exception as e:
            R.fail('bounded:C18.known:' + kname, f'doc={text!r}: {type(e).__name__}: {e}', {'family': 'c18', 'docs': [text]})
    for _ in range(n_cases(tier, 250, 4000)):
        text = gen_rich_doc(rng) if rng.random() < 0.5 else G.render(G.Gen(rng, tags=FULLTAGS, p_tag=0.35, int_keys=True).map(3, top=True))
        if only is not None:
            text = only
        try:
            t1 = list(ayyaml.parse(text))[0]
        except Exception as e:
            R.skip(text, e)
            continue
        if t1 is None:
            continue
        R.case(text, {'doc': text})
        try:
            d1 = ayyaml.dump(t1)
            t2 = list(ayyaml.parse(d1))[0]
            d2 = ayyaml.dump(t2)
        except Exception as e:
            R.fail('bounded:C18.dump-then-parse-succeeds', f'doc={text!r}: {type(e).__name__}: {e}'[:500], {'family': 'c18', 'docs': [text]})
            continue
        s1 = [(p, i[:7], x) if isinstance(i, tuple) else (p, i, x) for p, i, x in node_signature(t1)]       # source_file is not kept by a dump
        s2 = [(p, i[:7], x) if isinstance(i, tuple) else (p, i, x) for p, i, x in node_signature(t2)]
        if s1 != s2:
            diff = [(x, y) for x, y in zip(s1, s2) if x != y][:2]
            R.fail('bounded:C18.reparsed-document-has-the-same-kinds-flags-and-metadata', f'doc={text!r} dump={d1!r}: first differences {diff!r}'[:900], {'family': 'c18', 'docs': [text]})
        if d1 != d2:
            R.fail('bounded:C18.dump-of-the-reparsed-document-is-the-same-text', f'doc={text!r}: first dump {d1!r}, second {d2!r}'[:900], {'family': 'c18', 'docs': [text]})
    return R.result()


def register_c19(R):
    R.tasks.append(Bounded('bounded:C19-deepcopy-and-pickle', ('C19',), run_c19,
                           'parsed documents of depth<=3 over the full tag vocabulary and 14 dynamic/structural node kinds; copy, pickle round trip, merge as older/newer stage; quick 250 / thorough 4000 documents',
                           stands_in_for='copy/pickle protocol driving ComposedNode.__reduce__/_recreate/__setstate__ and ConfigScalar.__reduce__ (state before or after items)'))
    R.tasks.append(Bounded('bounded:C18-dump-parse', ('C18',), run_c18,
                           'same generator as C19; dump, parse back, dump again; quick 250 / thorough 4000 documents',
                           stands_in_for='PyYAML emitter, _node_representer recursion over the dumper stack'))


def _reg_all(R):
    register(R)
    register_c01(R)
    register_c19(R)


# ------------------------------------------------------------------------------------------------ C12
def eval_in_subprocess(repo, progs_cfgs, timeout=60):
    """runs a SEQUENCE of builds in ONE child process; returns list of ('ok', repr) | ('err', cls, cause) and the exit status"""
    code = ("import sys, json; sys.path.insert(0, %r); import awesomeyaml\n" % os.path.abspath(repo) +
            "jobs = json.loads(sys.argv[1])\nout = []\n"
            "for job in jobs:\n"
            "    ctx = awesomeyaml.EvalContext(eval_symbols=job.get('symbols')) if job.get('symbols') is not None else None\n"
            "    try:\n        c = awesomeyaml.Config.build(job['text'], raw_yaml=True, filename=job.get('filename'), eval_ctx=ctx)\n        out.append(['ok', repr(c['e'])])\n"
            "    except Exception as e:\n        out.append(['err', type(e).__name__, type(getattr(e, '__cause__', None)).__name__])\n"
            "    print('R', json.dumps(out[-1]), flush=True)\n")
    try:
        p = subprocess.run(['/venv/bin/python', '-c', code, json.dumps(progs_cfgs)], capture_output=True, text=True, timeout=timeout)
    except subprocess.TimeoutExpired:
        return [], 'timeout'
    res = [json.loads(l[2:]) for l in p.stdout.split('\n') if l.startswith('R ')]
    return res, p.returncode


def native(prog, names):
    lines = prog.strip().split('\n')
    g = dict(names)
    try:
        exec('\n'.join(lines[:-1]), g)
        return ['ok', repr(eval(lines[-1].strip(), g))]
    except Exception as e:
        return ['err', 'EvalError', type(e).__name__]


def yaml_eval_doc(prog, cfg):
    body = ''.join('    ' + l + '\n' for l in prog.split('\n'))
    head = ''.join(f'{k}: {v!r}\n' for k, v in cfg.items())
    return head + 'e: !eval |\n' + body


def run_c12(repo, tier, seed, only=None):
    rng = random.Random(12000 + seed)
    R = Runner('C12')
    # recorded finding (KNOWN_FINDINGS.txt): the bytecode rewriter on CPython >= 3.12 - fixed witnesses, re-confirmed on every run
    for kname, prog in (('rewriter:two-config-names-in-one-code-object', 'a + b'), ('rewriter:second-name-resolves-to-the-first', 'a if b else 0')):
        res, rc = eval_in_subprocess(repo, [{'text': yaml_eval_doc(prog, {'a': 2, 'b': 3}), 'filename': 'm.yaml'}])
        exp = native(prog, {'a': 2, 'b': 3})
        R.cases += 1
        if rc != 0 or not res or res[0] != exp:
            R.fail('bounded:C12.known:' + kname, f'program {prog!r} with a=2, b=3: native {exp!r}; through !eval: results {res!r}, exit status {rc!r}', {'family': 'c12', 'docs': [prog]})
    # residual class: programs whose code objects mention at most one distinct global/config/builtin name (see the finding)
    one_name = ['1 + 1', '2 * (3 + 4)', 'a + 1', 'a * a', '(lambda z: z + a)(1)', "{'k': a}['k']", '[a, a][1]', 'a if a else 0', "'x' * a", '-a', 'not a', '(a, a)', 'zz', '1 // 0', '1 +', '[a for _ in (1, 2)]',
                # several nested code objects in a code object that reads no name itself (each nested one reads at most one name); the
                # name-reading one first / last; nested two levels
                'def f():\n    return a\ndef g():\n    return 1\nf()', 'def g():\n    return 1\ndef f():\n    return a\nf()', '(lambda: a, lambda: 1)[0]()', '(lambda: 1, lambda: a)[1]()',
                'def h():\n    u = lambda: a\n    v = lambda: 7\n    return u\nh()()', 'def f():\n    return a\ndef g():\n    return 1\nf() if True else 0']
    cfg = {'a': 2}
    jobs = []
    for prog in one_name:
        for fname in ('m.yaml', None):
            jobs.append((prog, fname))
    for prog, fname in jobs:
        res, rc = eval_in_subprocess(repo, [{'text': yaml_eval_doc(prog, cfg), 'filename': fname}])
        exp = native(prog, cfg) if prog != '1 +' else ['err', 'EvalError', 'SyntaxError']
        R.case((prog, fname), {'program': prog, 'filename': fname, 'expected': exp})
        if rc != 0 or not res or res[0] != exp:
            R.fail('bounded:C12.eval-computes-what-python-computes' + ('' if fname else '(no-file-name)'),
                   f'program {prog!r} a=2 filename={fname!r}: native {exp!r}; through !eval {res!r}, exit status {rc!r}', {'family': 'c12', 'docs': [prog], 'filename': fname})
    # f-string nodes (implicit f'..' / f".." form and the explicit !fstr tag with a bare body) against the Python f-string over the same name
    fcases = [("e: f'{a}x'", "f'{a}x'"), ('e: f"it\'s {a}"', 'f"it\'s {a}"'), ("e: !fstr plain {a} text", "f'plain {a} text'"), ("e: !fstr it's {a}", 'f"it\'s {a}"'),
              ("e: !fstr it's {a} o'clock", 'f"it\'s {a} o\'clock"'), ('e: !fstr say "{a}"', "f'say \"{a}\"'"), ("e: !fstr \"{a}' + '{a}\"", 'f"{a}\' + \'{a}"')]
    for ytext, pyexpr in fcases:
        res, rc = eval_in_subprocess(repo, [{'text': 'a: 3\n' + ytext + '\n', 'filename': 'm.yaml'}])
        exp = ['ok', repr(eval(pyexpr, {'a': 3}))]
        R.case(('fstr', ytext), {'document': ytext, 'python': pyexpr})
        if rc != 0 or not res or res[0] != exp:
            R.fail('bounded:C12.f-string-node-equals-the-python-f-string-over-the-same-names', f'{ytext!r} with a=3: Python gives {exp!r}; the node gives {res!r} (exit {rc!r})', {'family': 'c12', 'docs': [ytext]})
    # histories: several builds in ONE process must not see each other (config values, symbols)
    for _ in range(n_cases(tier, 6, 40)):
        prog = rng.choice(['x = 1\na', 'a * 10', 'y = a\ny', 'import math\na'])
        vals = [rng.randint(1, 9) for _ in range(3)]
        seqs = [{'text': yaml_eval_doc(prog, {'a': v}), 'filename': 'm.yaml'} for v in vals]
        res, rc = eval_in_subprocess(repo, seqs)
        exp = [native(prog, {'a': v}) for v in vals]
        R.case((prog, tuple(vals)), {'program': prog, 'values_of_a_in_successive_builds': vals})
        if rc != 0 or res != exp:
            R.fail('bounded:C12.value-depends-only-on-the-current-build', f'program {prog!r} built with a={vals} in one process: expected {exp!r}, got {res!r} (exit {rc!r})', {'family': 'c12', 'docs': [prog], 'values': vals})
    # a symbol supplied to an EARLIER build only: the later build (same code text at the same path) sees its own config entry, or a NameError
    for code in ('s', 's + 0', 'x = s\nx'):
        seqs = [{'text': 'e: !eval |\n' + ''.join('    ' + l + '\n' for l in code.split('\n')), 'filename': 'm.yaml', 'symbols': {'s': 7}},
                {'text': 's: 1\ne: !eval |\n' + ''.join('    ' + l + '\n' for l in code.split('\n')), 'filename': 'm.yaml', 'symbols': {}},
                {'text': 'e: !eval |\n' + ''.join('    ' + l + '\n' for l in code.split('\n')), 'filename': 'm.yaml', 'symbols': {}}]
        res, rc = eval_in_subprocess(repo, seqs)
        R.case(('symbol-then-config', code), {'program': code})
        exp = [['ok', '7'], ['ok', '1'], ['err', 'EvalError', 'NameError']]
        if rc != 0 or res != exp:
            R.fail('bounded:C12.value-depends-only-on-the-current-build', f'program {code!r}: build 1 with symbol s=7, build 2 with config entry s: 1, build 3 with neither: expected {exp!r}, got {res!r} (exit {rc!r})', {'family': 'c12', 'docs': [code]})
    # symbols of the evaluation context
    seqs = [{'text': yaml_eval_doc('s = sym\ns', {'a': 1}), 'filename': 'm.yaml', 'symbols': {'sym': v}} for v in (11, 22)]
    res, rc = eval_in_subprocess(repo, seqs)
    R.cases += 1
    if rc != 0 or res != [['ok', '11'], ['ok', '22']]:
        R.fail('bounded:C12.value-depends-only-on-the-current-build', f'symbol sym=11 then sym=22 in one process: got {res!r} (exit {rc!r})', {'family': 'c12', 'docs': ['s = sym\ns']})
    return R.result()


def register_c12(R):
    R.tasks.append(Bounded('bounded:C12-eval-programs', ('C12',), run_c12,
                           '22 one-name programs (incl. several nested code objects per program) x (with / without source file name), each in its own child process (exit status checked); 6 (thorough 40) histories of three builds in one process; fixed witnesses of the recorded rewriter finding',
                           stands_in_for='EvalNode._patch_access_to_globals (CPython bytecode rewriting: outside any source-level contract), compile/exec/eval, sys.modules namespace cache'))


def run_c13(repo, tier, seed, only=None):
    """C13 end to end: !call / !bind nodes written in the scalar, list and mapping forms are built and evaluated; the call the target
    receives is compared with the call the property statement prescribes (scalar -> position 0, list -> positions 0..n-1, integer
    key i -> i-th positional parameter, string key -> parameter of that name, gaps bound by name)"""
    ay = load(repo)
    import builtins
    rng = random.Random(13000 + seed)
    R = Runner('C13')
    name = 'bounded:C13.target-receives-the-arguments-the-statement-prescribes'
    builtins._verif_c13_any = lambda *a, **k: ('any', a, tuple(sorted(k.items())))

    def _abc(a, b=None, c=None):
        return ('abc', a, b, c)
    builtins._verif_c13_abc = _abc
    try:
        scalars = [("hello", 'hello'), ("'two words'", 'two words'), ("'12'", '12'), ("''", ''), ('x', 'x'), ('3', 3), ('1.5', 1.5), ('true', True), ('dir/file.txt', 'dir/file.txt')]
        cases = []
        for text, val in scalars:
            cases.append((f'!call:builtins._verif_c13_any {text}', ('any', (val,), ())))
            cases.append((f'!call:builtins._verif_c13_abc {text}', ('abc', val, None, None)))
            cases.append((f'!bind:builtins._verif_c13_any {text}', ('any', (val,), ())))
        cases += [("!call:builtins._verif_c13_any ['ab', 'cd']", ('any', ('ab', 'cd'), ())), ("!call:builtins._verif_c13_any [['ab']]", ('any', (['ab'],), ())),
                  ("!call:builtins._verif_c13_any []", ('any', (), ())), ("!call:builtins._verif_c13_any {}", ('any', (), ())),
                  ("!call:builtins._verif_c13_abc {0: 'p', c: 'r'}", ('abc', 'p', None, 'r')), ("!call:builtins._verif_c13_abc {0: 'p', 2: 'r'}", ('abc', 'p', None, 'r')),
                  ("!call:builtins._verif_c13_abc {a: 'ab', b: 'cd'}", ('abc', 'ab', 'cd', None)), ("!bind:builtins._verif_c13_abc {b: 'xy', 0: 'hello'}", ('abc', 'hello', 'xy', None)),
                  ("!call:builtins._verif_c13_any {k: 'vw', 0: 'hello'}", ('any', ('hello',), (('k', 'vw'),)))]
        ERR = ('error',)
        for kind in ('!call', '!bind'):
            cases += [(kind + ":builtins._verif_c13_abc {0: 1, 2: 3, c: 7}", ERR), (kind + ":builtins._verif_c13_abc {1: 5, b: 6, a: 1}", ERR), (kind + ":builtins._verif_c13_abc {0: 1, 5: 2}", ERR),
                      (kind + ":builtins._verif_c13_abc {0: 1, 2: 3}", ('abc', 1, None, 3))]
        for _ in range(n_cases(tier, 30, 300)):
            n = rng.randint(0, 3)
            vals = [rng.choice(['ab', '', 'x', 0, 1.5, True, 'long text']) for _ in range(n)]
            cases.append(('!call:builtins._verif_c13_any [' + ', '.join(G.render_scalar(v) for v in vals) + ']', ('any', tuple(vals), ())))
        for text, want in cases:
            doc = 'f: ' + text + '\n'
            try:
                cfg = ay.Config.build(doc, raw_yaml=True)
                got = cfg['f']
                if text.startswith('!bind'):
                    got = got()
            except Exception as e:
                got = ('error', type(e).__name__, str(e)[:120])
            R.case(text, {'doc': doc, 'expected_call': repr(want)})
            flat = lambda t: list(t[1]) if t and t[0] == 'any' else list(t[1:])
            if want == ('error',):
                if not (isinstance(got, tuple) and got and got[0] == 'error'):
                    R.fail(name, f'{doc!r}: binding a parameter twice / an index beyond the signature is an error, got {got!r}'[:600], {'family': 'c13', 'docs': [doc]})
                continue
            if got != want or [type(x) for x in flat(got)] != [type(x) for x in flat(want)]:
                R.fail(name, f'{doc!r}: the target should be called as {want!r}, got {got!r}'[:600], {'family': 'c13', 'docs': [doc]})
    finally:
        del builtins._verif_c13_any, builtins._verif_c13_abc
    return R.result()


def register_c13(R):
    R.tasks.append(Bounded('bounded:C13-argument-forms', ('C13',), run_c13,
                           '9 scalar values x (!call / !bind, two signatures), fixed list and mapping forms, 30 (thorough 300) generated argument lists of length <= 3',
                           stands_in_for='FunctionNode.__init__ (normalisation of the scalar / list / mapping argument forms; dict comprehension over a sequence) and the construction path through the YAML constructors'))


def _reg_all(R):
    register(R)
    register_c13(R)
    register_c01(R)
    register_c19(R)
    register_c12(R)
