"""Contracts on awesomeyaml/nodes/composed.py: flag inheritance, child API, tree walk."""
import z3
from pyvc import sym
from pyvc.sym import Val, is_none, is_bool, is_int, is_ref, is_undef, b_of, i_of, r_of, mk_bool, mk_int, mk_str, MapT
from pyvc.contract import Contract, P, Raises, Loop
from pyvc.values import SV
from . import spec as S

C = 'awesomeyaml/nodes/composed.py::'
FALSE = sym.FALSE


def register(R):
    R.inline_keys |= {C + 'ComposedNode._get_child_kwargs'}
    comp = lambda n='self': P.node(n, 'ComposedNode')

    # ---- _get_child_kwargs: what an adopted child inherits -----------------------------------
    def gck_ens(with_child):
        def ens(c):
            s = c.ref('self')
            m = c.post.m(r_of(c.rt))
            out = [('result-is-new-dict', z3.And(is_ref(c.rt), r_of(c.rt) < 0)),
                   ('C04+C15+C19.child-inherits-delete', z3.And(m.has(mk_str('implicit_delete')), m.get(mk_str('implicit_delete')) == S.inh_delete(c.eng, c.pre, s))),
                   ('C06+C08+C19.child-inherits-allow_new', z3.And(m.has(mk_str('implicit_allow_new')), m.get(mk_str('implicit_allow_new')) == S.inh_allow_new(c.pre, s)))]
            if with_child:
                ch = c.ref('child')
                keep = c.pre.get('_implicit_safe', ch) == FALSE
                out.append(('C07.never-offers-to-reset-implicit-unsafe', m.has(mk_str('implicit_safe')) == z3.Not(keep)))
                out.append(('C07+C19.child-inherits-safe', z3.Implies(z3.Not(keep), m.get(mk_str('implicit_safe')) == S.inh_safe(c.pre, s))))
            else:
                out.append(('C07+C19.child-inherits-safe', z3.And(m.has(mk_str('implicit_safe')), m.get(mk_str('implicit_safe')) == S.inh_safe(c.pre, s))))
            return out
        return ens

    R.add(Contract(C + 'ComposedNode._get_child_kwargs', [comp(), P.const('child', None)], name='no-child',
                   requires=lambda c: S.valid_flags(c.pre, c.ref('self')), pure=True, props=('C04', 'C06', 'C07', 'C08', 'C15', 'C19'),
                   ensures=[('inherit', gck_ens(False))], opts={'verify_only': True}))
    R.add(Contract(C + 'ComposedNode._get_child_kwargs', [comp(), P.node('child', 'ConfigNode')], name='with-child',
                   requires=lambda c: z3.And(S.valid_flags(c.pre, c.ref('self')), S.valid_flags(c.pre, c.ref('child'))), pure=True,
                   props=('C04', 'C06', 'C07', 'C08', 'C15', 'C19'), ensures=[('inherit', gck_ens(True))], opts={'verify_only': True}))

    # ---- _propagate_implicit_values -----------------------------------------------------------
    def piv_req(c):
        s = c.ref('self')
        return [('valid-self', S.valid_flags(c.pre, s)), S.subwf_clause(c.eng, c.pre, s), ('desc-valid', S.desc_valid(c.pre, s))]

    def child_post(c, pre, post, s, ch, which=None):
        early = S.early_return(pre, s)
        parts = child_post_parts(c, pre, post, s, ch, early)
        if which is not None:
            return parts[which]
        return z3.And(list(parts.values()))

    def child_post_parts(c, pre, post, s, ch, early):
        return {
            'C07.unsafe-never-reset': z3.Implies(pre.get('_implicit_safe', ch) == FALSE, post.get('_implicit_safe', ch) == FALSE),
            'C07.unsafety-spreads-down': z3.Implies(z3.And(z3.Not(early), is_none(pre.get('_safe', s)), pre.get('_implicit_safe', s) == FALSE), post.get('_implicit_safe', ch) == FALSE),
            'C15+C19.delete-as-adoption-would-give': z3.Implies(z3.And(z3.Not(early), is_none(pre.get('_delete', s))), post.get('_implicit_delete', ch) == S.inh_delete(c.eng, pre, s)),
            'C08.allow_new-as-adoption-would-give': z3.Implies(z3.And(z3.Not(early), is_none(pre.get('_allow_new', s))), post.get('_implicit_allow_new', ch) == pre.get('_implicit_allow_new', s)),
            'untouched-when-nothing-to-do': z3.Implies(early, z3.And([post.get(f, ch) == pre.get(f, ch) for f in S.IMPLICIT])),
            'valid': S.valid_flags(post, ch)}

    PARTS = ['C07.unsafe-never-reset', 'C07.unsafety-spreads-down', 'C15+C19.delete-as-adoption-would-give', 'C08.allow_new-as-adoption-would-give',
             'untouched-when-nothing-to-do', 'valid']

    def _unused(c, pre, post, s, ch):
        early = S.early_return(pre, s)
        return z3.And(
            z3.Implies(pre.get('_implicit_safe', ch) == FALSE, post.get('_implicit_safe', ch) == FALSE),
            z3.Implies(z3.And(z3.Not(early), is_none(pre.get('_safe', s)), pre.get('_implicit_safe', s) == FALSE), post.get('_implicit_safe', ch) == FALSE),
            z3.Implies(z3.And(z3.Not(early), is_none(pre.get('_delete', s))), post.get('_implicit_delete', ch) == S.inh_delete(c.eng, pre, s)),
            z3.Implies(z3.And(z3.Not(early), is_none(pre.get('_allow_new', s))), post.get('_implicit_allow_new', ch) == pre.get('_implicit_allow_new', s)),
            z3.Implies(early, z3.And([post.get(f, ch) == pre.get(f, ch) for f in S.IMPLICIT])),
            S.valid_flags(post, ch))

    def unchanged(pre, post, r):
        return z3.And([post.get(f, r) == pre.get(f, r) for f in S.IMPLICIT])

    def mono(pre, post):
        x = z3.Int('!mx')
        return S.FA([x], z3.Implies(S.safe(post, x), S.safe(pre, x)))

    def piv_ens(c):
        s = c.ref('self')
        return [(p, S.forall_children(c.pre, s, lambda k, ch, p=p: child_post(c, c.pre, c.post, s, ch, p), tag='e')) for p in PARTS] + [
                ('C07.never-makes-anything-safe', mono(c.pre, c.post)),
                ('descendants-stay-valid', S.desc_valid(c.post, s))]

    def piv_inv(c, L):
        s = c.ref('self')
        m = S.children(L.entry_heap, s)
        k = z3.Const('!ik', Val)
        x = z3.Int('!ix')
        ch = r_of(m.get(k))
        pos = z3.Select(m.pos, k)
        return [
            ('frame', S.FA([x], z3.Implies(z3.Not(S.Desc(s, x)), unchanged(L.entry_heap, L.heap, x)))),
            ('todo-untouched', S.FA([k], z3.Implies(z3.And(m.has(k), pos >= L.i), unchanged(L.entry_heap, L.heap, ch)), patterns=[m.get(k)])),
            ('todo-subtrees-untouched', S.FA([k, x], z3.Implies(z3.And(m.has(k), pos >= L.i, S.Desc(ch, x)), unchanged(L.entry_heap, L.heap, x)),
                                                   patterns=[z3.MultiPattern(m.get(k), S.Desc(ch, x))])),
        ] + [('done:' + p, S.FA([k], z3.Implies(z3.And(m.has(k), pos < L.i), child_post(c, L.entry_heap, L.heap, s, ch, p)), patterns=[m.get(k)])) for p in PARTS] + [
            ('mono', mono(L.entry_heap, L.heap)),
            ('valid', S.desc_valid(L.heap, s)),
            ('not-early', z3.Not(S.early_return(L.entry_heap, s))),
        ]

    R.add(Contract(C + 'ComposedNode._propagate_implicit_values', [comp()], requires=piv_req,
                   modifies=lambda c: [(f, (lambda r, c=c: S.Desc(c.ref('self'), r))) for f in S.IMPLICIT],
                   ensures=[('piv', piv_ens)], props=('C07', 'C08', 'C15', 'C19'),
                   loops={0: Loop(piv_inv, mod_locals=['child', 'fix'], mod_fields=S.IMPLICIT)}))


def register_set_child(R):
    """ComposedNode.ayns.set_child with the flags an adopted child inherits (C04, C07, C08)"""
    comp = lambda: P.node('self', 'ComposedNode')

    def chref(h, r):
        return r_of(h.get('_children', r))

    def is_node(c, h, t):
        return z3.And(is_ref(t), c.eng.isinstance_term(h.cls(r_of(t)), 'ConfigNode'))

    def req(c):
        s = c.ref('self')
        t = c['value']
        vr = r_of(t)
        x = z3.Int('!sx')
        node = is_node(c, c.pre, t)
        mm = S.children(c.pre, s)
        kk = z3.Const('!wfk', Val)
        return [('valid-self', S.valid_flags(c.pre, s)),
                ('value-ok', z3.Implies(node, z3.And(S.valid_flags(c.pre, vr), S.desc_valid(c.pre, vr), vr > 0))),
                S.subwf_clause(c.eng, c.pre, vr, guard=node),
                ('value-apart', z3.Implies(node, S.FA([x], z3.Implies(S.In(vr, x), z3.And(x != s, chref(c.pre, x) != chref(c.pre, s), chref(c.pre, x) != s)), patterns=[S.Desc(vr, x)]))),
                ('children-dict-wellformed', z3.And(mm.len >= 0, S.FA([kk], z3.And(z3.Select(mm.pos, kk) >= -1, z3.Select(mm.pos, kk) < mm.len), patterns=[z3.Select(mm.pos, kk)]))),
                ('children-is-dict', z3.And(is_ref(c.pre.get('_children', s)), c.alive(chref(c.pre, s)), c.pre.cls(chref(c.pre, s)) == c.cid('dict')))]

    def ens(c):
        s = c.ref('self')
        m0, m1 = S.children(c.pre, s), S.children(c.post, s)
        rr = r_of(c.rt)
        return [('C17.result-is-node', is_node(c, c.post, c.rt)),
                ('C17.node-argument-is-stored-itself', z3.Implies(is_node(c, c.pre, c['value']), c.rt == c['value'])),
                ('C17.child-view-is-old-view-with-name-bound-to-result', m1.eq(m0.set(c['name'], c.rt))),
                ('C07.adopted-child-inherits-unsafety', z3.Implies(S.inh_safe(c.pre, s) == sym.FALSE, c.post.get('_implicit_safe', rr) == sym.FALSE)),
                ('C07.adoption-never-resets-unsafe-mark', z3.Implies(z3.And(is_node(c, c.pre, c['value']), c.pre.get('_implicit_safe', rr) == sym.FALSE),
                                                                     c.post.get('_implicit_safe', rr) == sym.FALSE)),
                ('C04.adopted-child-inherits-delete', c.post.get('_implicit_delete', rr) == S.inh_delete(c.eng, c.pre, s)),
                ('C08.adopted-child-inherits-allow_new', c.post.get('_implicit_allow_new', rr) == S.inh_allow_new(c.pre, s)),
                ('result-valid', S.valid_flags(c.post, rr))]

    def mods(c):
        t = c['value']
        vr = r_of(t)
        s = c.ref('self')
        return [(f, [chref(c.pre, s)]) for f in ('$mlen', '$mkeyat', '$mpos', '$mval')] + \
               [(f, (lambda r, vr=vr, t=t: z3.And(is_ref(t), z3.Or(r == vr, S.Desc(vr, r))))) for f in ['_priority', '_pyyaml_node'] + S.IMPLICIT]

    R.add(Contract(C + 'ComposedNode.ayns.set_child', [comp(), P.val('name', 'key'), P.val('value', 'any')], requires=req, modifies=mods,
                   ensures=[('set_child', ens)], result=P.node('result', 'ConfigNode', maybe_fresh=True), props=('C17', 'C07', 'C04', 'C08'), opts={'shards': 12}))


def _reg_all(R):
    register(R)
    register_set_child(R)
