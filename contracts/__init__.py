"""Sidecar contracts of the real functions of /repo (no file of the repository is edited)."""
ALL = ['c_node', 'c_composed', 'c_adopt', 'c_frames', 'c_containers', 'c_structural']

# evidence level per property (MANIFEST.level_claimed.category must agree)
LEVELS = {}
EXPLAIN = {}
