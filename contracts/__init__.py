"""Sidecar contracts of the real functions of /repo (no file of the repository is edited)."""
ALL = ['c_node', 'c_composed', 'c_adopt', 'c_frames', 'c_containers', 'c_merge', 'c_eval', 'c_config', 'c_function', 'c_structural', 'b_merge', 'b_eval']

# evidence level per property (MANIFEST.level_claimed.category must agree)
LEVELS = {'C09': 'other', 'C10': 'proof', 'C02': 'other', 'C04': 'other', 'C05': 'other', 'C08': 'other', 'C15': 'other', 'C03': 'proof', 'C07': 'proof', 'C17': 'proof'}
_MIX = ('Mixed: (1) proof obligations generated from the current source of the functions listed under functions_under_contract and discharged by z3/cvc5 '
        '(counted in obligations/discharged); (2) BOUNDED stand-ins (listed under bounded_stand_ins, never counted as discharged) for the composed merge '
        '(ComposedNode.on_merge_impl, filter_nodes, ConfigList.on_merge_impl), whose functional one-level contract is not discharged yet: the real library '
        'is run end to end on generated small documents against an oracle written from the property statement. ')
EXPLAIN = {
    'C09': 'Mixed: proved obligations on XRefNode.on_evaluate_impl (the end of a chain is a non-reference node evaluated through the memoising context; termination invariant: no reference path is followed twice and a reference never leads back to itself; pigeonhole over the finitely many reference nodes is trusted) and on EvalContext.evaluate_node (memo by identity, hence aliasing); path parsing / lookup (EvalContext.get_node, NodePath.split_path: regular expressions) is assumed and covered by a BOUNDED watchdog check of whole builds over all small reference graphs.',
    'C02': _MIX + 'Proved: leaf rule (newer replaces unless the older is strictly stronger), index normalisation of list merges. Bounded: fold of 1-4 tag-free documents equals the recursive update.',
    'C04': _MIX + 'Proved: the two pruning predicates compare with the node at the same RELATIVE path (dominance obligation on the lookup), effective delete flag, inheritance of delete. Bounded: deleting merges against the replace-except-protected oracle.',
    'C05': _MIX + 'Proved: path-relativity of the pruning lookups (the only decisions that read a path). Bounded: wrap invariance of generated merge sequences under key chains that collide with inner key names.',
    'C08': _MIX + 'Proved: allow_new getter, leaf new-path check (raises iff), inheritance of allow_new on adoption, and the ORDER obligation of the composed merge: a key missing in the older mapping is adopted only after the new-path check returned. Bounded: !notnew overrides and command-line overrides against the path-set oracle.',
    'C15': _MIX + 'Proved: re-propagation of implicit flags is consistent with inheritance at adoption (loop invariant over the child map). Bounded: determinism, repeat-last, empty-document neutrality, key-order and !unsafe/!new neutrality on generated sequences.',
}
