"""C16: !append / !extend / !prev (pre-merge operators)."""
import z3
from pyvc import sym
from pyvc.sym import Val, is_none, is_bool, is_int, is_str, is_ref, is_undef, b_of, i_of, r_of, ListT, MapT
from pyvc.contract import Contract, P, Raises, Loop
from pyvc.values import SV, PathV, TupleV, ClassV
from . import spec as S
from .c_containers import USE_VIEWS, inv_list, inv_list_parts, chref, is_node, common_req

N = 'awesomeyaml/nodes/node.py::'
C = 'awesomeyaml/nodes/composed.py::'
L = 'awesomeyaml/nodes/list.py::'
NodeAt = z3.Function('NodeAt', sym.I, sym.PathSort, Val)          # ghost: what `into` holds at a path (none: nothing)
NodeAtRef = z3.Function('NodeAtRef', sym.I, sym.I, Val)           # same, the path given by a reference node (its text)
Owned = z3.Function('Owned', sym.I, sym.I, z3.BoolSort())          # ghost: object r (node or storage) belongs to the tree rooted at the first argument
STORE = ('$mlen', '$mkeyat', '$mpos', '$mval', '$llen', '$litem')


def register(R):
    # ---- construction of a list node from the items of another list node (assumed) ---------------------------
    def cons_result(c, it):
        return SV(sym.mk_ref(it.run.fresh('newlist', sym.I)))

    def cons_ens(c):
        cls = c.a['cls'].name
        v = c.a['args'].items[0].t
        rr = r_of(c.rt)
        src = c.pre.l(r_of(v))
        out = [('fresh', rr < -1000000), ('class', c.post.cls(rr) == c.cid(cls))]
        if cls == 'ConfigList':
            p = z3.Int('!cp')
            out += [('items', z3.And(c.post.l(rr).len == src.len, S.FA([p], z3.Implies(z3.And(0 <= p, p < src.len), c.post.l(rr).get(p) == src.get(p))))),
                    ('views', inv_list(c, c.post, rr))]
        return out

    def post_effect(c, it):
        rr = r_of(c.rt)
        floor = getattr(it.run, 'floor', z3.IntVal(-1000000))
        it.run.assume(rr < floor)
        it.run.floor = rr

    R.add(Contract(N + 'ConfigNodeMeta.__call__', [], name='construct', assume_only=True,
                   requires=lambda c: [('list-from-list-node', z3.BoolVal(c.a['cls'].name == 'ConfigList' and len(c.a['args'].items) == 1))],
                   ensures=[('construct', cons_ens)], modifies=lambda c: [(f, 'all') for f in ['_priority', '_pyyaml_node'] + S.IMPLICIT],
                   result=cons_result, props=('C16',), opts={'callee': False, 'post_effect': post_effect},
                   note='ConfigList(list_node): a NEW plain list node holding the same element nodes in the same order (construction through type.__call__ is outside the subset: assumed)'))

    # ---- remove_node / get_node on the older tree (assumed: path walking with callbacks) ----------------------
    def rn_target(c):
        p = c.a['path'].items[0]
        return NodeAt(c.ref('self'), p.s) if isinstance(p, PathV) else NodeAtRef(c.ref('self'), r_of(p.t))

    def rn_ens(c):
        t = rn_target(c)
        tr = r_of(t)
        return [('returns-what-was-there', c.rt == t),
                ('kind', z3.Or(is_none(t), z3.And(is_ref(t), tr > 0, c.eng.isinstance_term(c.pre.cls(tr), 'ConfigNode'), tr != c.ref('self')))),
                ('classes-stable', c.post.arr('$cls') == c.pre.arr('$cls'))]

    def rn_mods(c):
        t = rn_target(c)
        tr = r_of(t)
        # everything in the older tree may be re-linked except the removed subtree's own root storage
        return [(f, (lambda r, tr=tr, c=c: z3.And(Owned(c.ref('self'), r), r != tr, r != chref(c.pre, tr)))) for f in STORE]

    R.add(Contract(C + 'ComposedNode.ayns.remove_node', [P.node('self', 'ComposedNode')], name='abstract', assume_only=True,
                   ensures=[('remove_node', rn_ens)], modifies=rn_mods, raises=[Raises('ValueError')], result=P.val('result', 'any'), props=('C16',),
                   opts={'bind_partial': True},
                   note='detaches and returns the node at a path of the older tree (None if absent); the detached node itself is untouched; path walking (_get_node with callbacks) is assumed, covered by the bounded stand-in'))
    R.add(Contract(C + 'ComposedNode.ayns.get_node', [P.node('self', 'ComposedNode')], name='abstract', assume_only=True, pure=True,
                   ensures=[('get_node', lambda c: [('returns-what-is-there', c.rt == rn_target(c)),
                                                    ('kind', z3.And(is_ref(c.rt), r_of(c.rt) > 0, c.eng.isinstance_term(c.pre.cls(r_of(c.rt)), 'ConfigNode')))])],
                   raises=[Raises('KeyError', when=lambda c: is_none(rn_target(c)), exact=True)], result=P.val('result', 'any'), props=('C16',),
                   opts={'bind_partial': True}, note='the node at a path (KeyError if absent): assumed, see remove_node'))

    # ---- !append ------------------------------------------------------------------------------------------
    def own_items(c):
        return c.pre.l(c.ref('self'))

    def grown(c, target):
        """the list object `target` holds its old items followed by the operator's items, same objects, same order"""
        l0, l1, lo = c.pre.l(target), c.post.l(target), own_items(c)
        p = z3.Int('!gp')
        return [('C16.previous-items-keep-place-and-identity', z3.And(l1.len == l0.len + lo.len, S.FA([p], z3.Implies(z3.And(0 <= p, p < l0.len), l1.get(p) == l0.get(p)), patterns=[l1.get(p)]))),
                ('C16.appended-items-follow-in-order', S.FA([p], z3.Implies(z3.And(0 <= p, p < lo.len), z3.Implies(is_node(c, c.pre, lo.get(p)), l1.get(l0.len + p) == lo.get(p))), patterns=[l1.get(l0.len + p)]))]

    def ap_req(c):
        s = c.ref('self')
        out = [('own-list', z3.And(own_items(c).len >= 0, inv_list(c, c.pre, s)))]
        if 'into' in c.a and isinstance(c.a['into'], SV) and not z3.is_true(sym.simp(is_none(c['into']))):
            out.append(('operator-is-not-part-of-the-older-tree', z3.And(z3.Not(Owned(c.ref('into'), s)), z3.Not(Owned(c.ref('into'), chref(c.pre, s))))))
        return out

    def into_ok(c):
        # the older tree: every list in it keeps its two views equal (established by the C17 contracts)
        t = NodeAt(c.ref('into'), c.a['path'].s)
        tr = r_of(t)
        mm = S.children(c.pre, tr)
        kk = z3.Const('!wfk', Val)
        return z3.Implies(z3.And(is_ref(t), c.eng.isinstance_term(c.pre.cls(tr), 'ConfigList')),
                          z3.And(inv_list(c, c.pre, tr), tr != c.ref('self'), chref(c.pre, tr) != c.ref('self'), is_ref(c.pre.get('_children', tr)),
                                 c.pre.cls(chref(c.pre, tr)) == c.cid('dict'), chref(c.pre, tr) > 0, mm.len >= 0,
                                 S.FA([kk], z3.And(z3.Select(mm.pos, kk) >= -1, z3.Select(mm.pos, kk) < mm.len), patterns=[z3.Select(mm.pos, kk)])))

    USE = dict(USE_VIEWS)
    USE.update({C + 'ComposedNode.ayns.remove_node': 'abstract', C + 'ComposedNode.ayns.get_node': 'abstract'})
    A = 'awesomeyaml/nodes/append.py::'
    R.add(Contract(A + 'AppendNode.ayns.on_premerge_impl', [P.node('self', 'AppendNode', exact=True), P.path('path'), P.node('into', 'ConfigDict')], name='onto-older-tree',
                   requires=lambda c: ap_req(c) + [('older-tree-lists-consistent', into_ok(c))],
                   modifies=lambda c: [(f, 'all') for f in STORE + ('_priority', '_pyyaml_node') + tuple(S.IMPLICIT)],
                   raises=[Raises('KeyError', when=lambda c: is_none(NodeAt(c.ref('into'), c.a['path'].s)), exact=True, name='C16.append-fails-iff-nothing-at-the-path'),
                           Raises('AttributeError', when=lambda c: z3.Not(c.eng.isinstance_term(c.pre.cls(r_of(NodeAt(c.ref('into'), c.a['path'].s))), 'list')),
                                  name='C16.append-fails-if-previous-value-is-not-a-list'), Raises('ValueError')],
                   ensures=[('append', lambda c: [('C16.result-is-the-previous-list-object', c.rt == NodeAt(c.ref('into'), c.a['path'].s))] +
                             grown(c, r_of(NodeAt(c.ref('into'), c.a['path'].s))) + inv_list_parts(c, c.post, r_of(NodeAt(c.ref('into'), c.a['path'].s))))],
                   result=P.val('result', 'any'), props=('C16',), opts={'use': USE, 'no_search': True, 'no_frame': True}))
    R.add(Contract(A + 'AppendNode.ayns.on_premerge_impl', [P.node('self', 'AppendNode', exact=True), P.path('path'), P.const('into', None)], name='first-stage',
                   requires=ap_req, modifies=lambda c: [(f, 'all') for f in ('_priority', '_pyyaml_node') + tuple(S.IMPLICIT)],
                   ensures=[('C16.without-older-tree-a-plain-list-of-the-own-items', lambda c: z3.And(c.post.cls(r_of(c.rt)) == c.cid('ConfigList'), c.post.l(r_of(c.rt)).len == own_items(c).len))],
                   result=P.val('result', 'any'), props=('C16',), opts={'use': USE, 'no_search': True}))


def register2(R):
    X = 'awesomeyaml/nodes/extend.py::'
    PV = 'awesomeyaml/nodes/prev.py::'
    USE = dict(USE_VIEWS)
    USE.update({C + 'ComposedNode.ayns.remove_node': 'abstract', C + 'ComposedNode.ayns.get_node': 'abstract'})

    def own_items(c):
        return c.pre.l(c.ref('self'))

    def target(c):
        return NodeAt(c.ref('into'), c.a['path'].s)

    def is_list_target(c):
        t = target(c)
        return z3.And(is_ref(t), c.eng.isinstance_term(c.pre.cls(r_of(t)), 'list'))

    def req(c):
        s = c.ref('self')
        t = target(c)
        tr = r_of(t)
        mm = S.children(c.pre, tr)
        kk = z3.Const('!wfk', Val)
        return [('own-list', z3.And(own_items(c).len >= 0, inv_list(c, c.pre, s))),
                ('operator-is-not-part-of-the-older-tree', z3.And(z3.Not(Owned(c.ref('into'), s)), z3.Not(Owned(c.ref('into'), chref(c.pre, s))))),
                ('older-tree-lists-consistent', z3.Implies(is_list_target(c), z3.And(inv_list(c, c.pre, tr), tr != s, chref(c.pre, tr) != s, is_ref(c.pre.get('_children', tr)),
                                                                                   c.pre.cls(chref(c.pre, tr)) == c.cid('dict'), chref(c.pre, tr) > 0, mm.len >= 0,
                                                                                   S.FA([kk], z3.And(z3.Select(mm.pos, kk) >= -1, z3.Select(mm.pos, kk) < mm.len), patterns=[z3.Select(mm.pos, kk)]))))]

    def ens(c):
        t = target(c)
        tr = r_of(t)
        l0, l1, lo = c.pre.l(tr), c.post.l(tr), own_items(c)
        p = z3.Int('!xp')
        hit = is_list_target(c)
        return [('C16.extends-the-previous-list-object-when-there-is-one', z3.Implies(hit, c.rt == t)),
                ('C16.previous-items-keep-place-and-identity', z3.Implies(hit, z3.And(l1.len == l0.len + lo.len, S.FA([p], z3.Implies(z3.And(0 <= p, p < l0.len), l1.get(p) == l0.get(p)), patterns=[l1.get(p)])))),
                ('C16.own-items-follow-in-order', z3.Implies(hit, S.FA([p], z3.Implies(z3.And(0 <= p, p < lo.len), z3.Implies(is_node(c, c.pre, lo.get(p)), l1.get(l0.len + p) == lo.get(p))), patterns=[l1.get(l0.len + p)]))),
                ('C16.otherwise-silently-a-plain-list-of-the-own-items', z3.Implies(z3.Not(hit), z3.And(r_of(c.rt) < 0, c.post.cls(r_of(c.rt)) == c.cid('ConfigList'), c.post.l(r_of(c.rt)).len == lo.len)))]

    R.add(Contract(X + 'ExtendNode.ayns.on_premerge_impl', [P.node('self', 'ExtendNode', exact=True), P.path('path'), P.node('into', 'ConfigDict')], name='onto-older-tree',
                   requires=req, modifies=lambda c: [(f, 'all') for f in STORE + ('_priority', '_pyyaml_node') + tuple(S.IMPLICIT)],
                   raises=[Raises('ValueError')], ensures=[('extend', ens)], result=P.val('result', 'any'), props=('C16',),
                   opts={'use': USE, 'no_search': True, 'no_frame': True}))
    R.add(Contract(X + 'ExtendNode.ayns.on_premerge_impl', [P.node('self', 'ExtendNode', exact=True), P.path('path'), P.const('into', None)], name='first-stage',
                   requires=lambda c: [('own-list', z3.And(own_items(c).len >= 0, inv_list(c, c.pre, c.ref('self'))))],
                   modifies=lambda c: [(f, 'all') for f in ('_priority', '_pyyaml_node') + tuple(S.IMPLICIT)],
                   ensures=[('C16.without-older-tree-a-plain-list-of-the-own-items', lambda c: z3.And(c.post.cls(r_of(c.rt)) == c.cid('ConfigList'), c.post.l(r_of(c.rt)).len == own_items(c).len))],
                   result=P.val('result', 'any'), props=('C16',), opts={'use': USE, 'no_search': True}))

    # ---- !prev --------------------------------------------------------------------------------------------
    def prev_t(c):
        return NodeAtRef(c.ref('into'), c.ref('self'))

    R.add(Contract(PV + 'PrevNode.ayns.on_premerge_impl', [P.node('self', 'PrevNode', exact=True), P.path('path'), P.node('into', 'ConfigDict')],
                   modifies=lambda c: [(f, (lambda r, c=c: z3.And(Owned(c.ref('into'), r), r != r_of(prev_t(c)), r != chref(c.pre, r_of(prev_t(c)))))) for f in STORE],
                   raises=[Raises('KeyError', when=lambda c: is_none(prev_t(c)), exact=True, name='C16.prev-fails-iff-nothing-at-the-referenced-path'), Raises('ValueError')],
                   ensures=[('C16.prev-returns-the-previous-subtree-itself-detached-and-untouched', lambda c: c.rt == prev_t(c))],
                   result=P.val('result', 'any'), props=('C16',), opts={'use': USE, 'no_search': True},
                   note='the subtree object at the referenced path is handed over as is (its own storage is outside the frame of the detaching operation)'))


def _reg_all(R):
    register(R)
    register2(R)
