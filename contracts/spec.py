"""Spec functions shared by the contracts (DESIGN section 3).  They are written from the property
statements, not from the code: each is the *postcondition* of the corresponding getter, which is proved.
All take a pyvc Heap and an object identity (z3 Int) and return z3 terms."""
import z3
from pyvc import sym
from pyvc.sym import Val, is_none, is_bool, is_int, is_str, is_ref, is_undef, b_of, i_of, r_of

# classes whose instances delete (replace wholesale) by default when merged onto older content:
# lists and everything list-like, and function nodes (C04: "a list, which deletes by default";
# documented merge tables of !bind / !call).  StreamNode is the internal container of sub-stages and must not.
DEFAULT_DELETE = ['ConfigList', 'AppendNode', 'ExtendNode', 'PathNode', 'RecurseNode', 'FunctionNode', 'BindNode', 'CallNode']

FLAG_FIELDS = ['_delete', '_allow_new', '_safe', '_implicit_delete', '_implicit_allow_new', '_implicit_safe']


def opt_bool(t):
    return z3.Or(is_none(t), is_bool(t))


def nn(t, alt):
    """notnone_or"""
    return z3.If(is_none(t), alt, t)


def tb(t):
    """truthiness of an optional bool Val"""
    return z3.And(is_bool(t), b_of(t))


def prio(h, r):
    p = h.get('_priority', r)
    return z3.If(is_none(p), 0, i_of(p))


def valid_flags(h, r):
    p = h.get('_priority', r)
    return z3.And(z3.Or(is_none(p), z3.And(is_int(p), i_of(p) >= -1, i_of(p) <= 1)),
                  *[opt_bool(h.get(f, r)) for f in FLAG_FIELDS],
                  opt_bool(h.get('_default_safe', r)))


def default_delete(eng, cls_term):
    return z3.Or([cls_term == eng.class_id(c) for c in DEFAULT_DELETE])


def delete_eff(eng, h, r):
    d, i = h.get('_delete', r), h.get('_implicit_delete', r)
    return z3.If(is_bool(d), b_of(d), z3.If(is_bool(i), b_of(i), default_delete(eng, h.cls(r))))


def allow_new(h, r):
    i = h.get('_implicit_allow_new', r)
    return z3.If(is_bool(i), b_of(i), True)


def safe(h, r):
    s, i, d = h.get('_safe', r), h.get('_implicit_safe', r), h.get('_default_safe', r)
    return z3.And(z3.Or(is_none(s), tb(s)), z3.Or(is_none(i), tb(i)), tb(d))


def stronger(h1, a, h2, b, if_equal):
    """has_priority_over"""
    return z3.If(prio(h1, a) == prio(h2, b), if_equal, prio(h1, a) > prio(h2, b))


def is_composed(eng, cls_term):
    return eng.isinstance_term(cls_term, 'ComposedNode')


def md(h, r):
    """the metadata mapping of node r (the dict object referenced by _metadata)"""
    return h.m(r_of(h.get('_metadata', r)))


def md_union(new, a, b):
    """new = {**a, **b} as far as the property cares: no key lost, b wins on common keys"""
    k = z3.Const('!mk', Val)
    return z3.ForAll([k], z3.And(new.has(k) == z3.Or(a.has(k), b.has(k)),
                                 z3.Implies(b.has(k), new.get(k) == b.get(k)),
                                 z3.Implies(z3.And(a.has(k), z3.Not(b.has(k))), new.get(k) == a.get(k))))
