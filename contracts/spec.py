"""Spec functions shared by the contracts (DESIGN section 3).  They are written from the property
statements, not from the code: each is the *postcondition* of the corresponding getter, which is proved.
All take a pyvc Heap and an object identity (z3 Int) and return z3 terms."""
import z3
from pyvc import sym
from pyvc.sym import Val, is_none, is_bool, is_int, is_str, is_ref, is_undef, b_of, i_of, r_of

# classes whose instances delete (replace wholesale) by default when merged onto older content:
# lists and everything list-like, and function nodes (C04: "a list, which deletes by default";
# documented merge tables of !bind / !call).  StreamNode is the internal container of sub-stages and must not.
DEFAULT_DELETE = ['ConfigList', 'AppendNode', 'ExtendNode', 'PathNode', 'RecurseNode', 'FunctionNode', 'BindNode', 'CallNode']

FLAG_FIELDS = ['_delete', '_allow_new', '_safe', '_implicit_delete', '_implicit_allow_new', '_implicit_safe']


def FA(vs, body, patterns=None, **kw):
    """ForAll with triggers when z3 accepts them (terms built over ite/store chains are not valid patterns)"""
    if patterns:
        try:
            return z3.ForAll(vs, body, patterns=patterns)
        except z3.Z3Exception:
            pass
    return z3.ForAll(vs, body)


def opt_bool(t):
    return z3.Or(is_none(t), is_bool(t))


def nn(t, alt):
    """notnone_or"""
    return z3.If(is_none(t), alt, t)


def tb(t):
    """truthiness of an optional bool Val"""
    return z3.And(is_bool(t), b_of(t))


def prio(h, r):
    p = h.get('_priority', r)
    return z3.If(is_none(p), 0, i_of(p))


def valid_flags(h, r):
    p = h.get('_priority', r)
    return z3.And(z3.Or(is_none(p), z3.And(is_int(p), i_of(p) >= -1, i_of(p) <= 1)),
                  *[opt_bool(h.get(f, r)) for f in FLAG_FIELDS],
                  opt_bool(h.get('_default_safe', r)))


def default_delete(eng, cls_term):
    return z3.Or([cls_term == eng.class_id(c) for c in DEFAULT_DELETE])


def delete_eff(eng, h, r):
    d, i = h.get('_delete', r), h.get('_implicit_delete', r)
    return z3.If(is_bool(d), b_of(d), z3.If(is_bool(i), b_of(i), default_delete(eng, h.cls(r))))


def allow_new(h, r):
    i = h.get('_implicit_allow_new', r)
    return z3.If(is_bool(i), b_of(i), True)


def safe(h, r):
    s, i, d = h.get('_safe', r), h.get('_implicit_safe', r), h.get('_default_safe', r)
    return z3.And(z3.Or(is_none(s), tb(s)), z3.Or(is_none(i), tb(i)), tb(d))


def stronger(h1, a, h2, b, if_equal):
    """has_priority_over"""
    return z3.If(prio(h1, a) == prio(h2, b), if_equal, prio(h1, a) > prio(h2, b))


def is_composed(eng, cls_term):
    return eng.isinstance_term(cls_term, 'ComposedNode')


def md(h, r):
    """the metadata mapping of node r (the dict object referenced by _metadata)"""
    return h.m(r_of(h.get('_metadata', r)))


def md_union(new, a, b):
    """new = {**a, **b} as far as the property cares: no key lost, b wins on common keys"""
    k = z3.Const('!mk', Val)
    return FA([k], z3.And(new.has(k) == z3.Or(a.has(k), b.has(k)),
                                 z3.Implies(b.has(k), new.get(k) == b.get(k)),
                                 z3.Implies(z3.And(a.has(k), z3.Not(b.has(k))), new.get(k) == a.get(k))))


# ---------------------------------------------------------------------------- trees
Desc = z3.Function('Desc', z3.IntSort(), z3.IntSort(), z3.BoolSort())     # ghost: proper descendant relation of the node tree


def children(h, r):
    """ordered child map of composed node r (the dict object referenced by _children)"""
    return h.m(r_of(h.get('_children', r)))


def forall_children(h, r, phi, tag='c'):
    """for every child c (object identity) under key k of node r: phi(k, c)"""
    k = z3.Const(f'!k{tag}', Val)
    m = children(h, r)
    return FA([k], z3.Implies(m.has(k), phi(k, r_of(m.get(k)))), patterns=[m.get(k)])


def tree(h, r, eng=None):
    """r is the root of a proper tree one level down (ghost Desc): children are objects, distinct, not r itself,
    and their subtrees are disjoint and contained in r's"""
    m = children(h, r)
    k, k2 = z3.Const('!tk', Val), z3.Const('!tk2', Val)
    x = z3.Int('!tx')
    c, c2 = r_of(m.get(k)), r_of(m.get(k2))
    return z3.And(
        is_ref(h.get('_children', r)), r_of(h.get('_children', r)) > 0, r > 0, m.len >= 0,
        FA([k], z3.And(z3.Select(m.pos, k) >= -1, z3.Select(m.pos, k) < m.len,
                              z3.Implies(z3.Select(m.pos, k) >= 0, z3.Select(m.keyat, z3.Select(m.pos, k)) == k)), patterns=[z3.Select(m.pos, k)]),
        FA([k], z3.Implies(m.has(k), z3.And(is_ref(m.get(k)), c > 0, c != r, Desc(r, c), z3.Not(Desc(c, r)), z3.Not(Desc(c, c)))), patterns=[m.get(k)]),
        FA([k, x], z3.Implies(z3.And(m.has(k), Desc(c, x)), z3.And(Desc(r, x), x != r)), patterns=[z3.MultiPattern(m.get(k), Desc(c, x))]),
        FA([k, k2], z3.Implies(z3.And(m.has(k), m.has(k2), k != k2), z3.And(c != c2, z3.Not(Desc(c, c2)))), patterns=[z3.MultiPattern(m.get(k), m.get(k2))]),
        FA([k, k2, x], z3.Implies(z3.And(m.has(k), m.has(k2), k != k2, Desc(c, x)), z3.Not(Desc(c2, x))),
                  patterns=[z3.MultiPattern(m.get(k), m.get(k2), Desc(c, x))]),
        z3.Not(Desc(r, r)))


def children_valid(h, r):
    return forall_children(h, r, lambda k, c: valid_flags(h, c), tag='v')


# what a child of p inherits (written from the documentation of the three sources of flags: explicit flag of the
# parent, else what the parent itself inherited; a parent that deletes by type default makes its children delete too)
def inh_delete(eng, h, p):
    d, i = h.get('_delete', p), h.get('_implicit_delete', p)
    return z3.If(is_none(d), z3.If(default_delete(eng, h.cls(p)), sym.TRUE, i), d)


def inh_allow_new(h, p):
    a, i = h.get('_allow_new', p), h.get('_implicit_allow_new', p)
    return z3.If(is_none(a), i, a)


def inh_safe(h, p):
    s, i = h.get('_safe', p), h.get('_implicit_safe', p)
    return z3.If(is_none(s), i, s)




TopK = z3.Function('TopK', z3.IntSort(), z3.IntSort(), Val)     # ghost: key of the child of r under which descendant x lives


def In(v, r):
    """r is v or a descendant of v"""
    return z3.Or(r == v, Desc(v, r))


def subwf(eng, h, v):
    """the subtree rooted at v is a well-formed (finite, unshared) node tree; structure is read from heap h.
    Every composed node in it has a proper level of children (tree), every descendant lives under exactly one
    child, leaves have no descendants."""
    r = z3.Int('!wr')
    x = z3.Int('!wx')
    m = children(h, r)
    tk = TopK(r, x)
    ck = r_of(m.get(tk))
    return z3.And(
        v > 0,
        FA([r], z3.Implies(Desc(v, r), z3.And(r > 0, eng.isinstance_term(h.cls(r), 'ConfigNode'))), patterns=[Desc(v, r)]),
        FA([r], z3.Implies(z3.And(In(v, r), is_composed(eng, h.cls(r))), tree(h, r)), patterns=[Desc(v, r)]),
        z3.Implies(is_composed(eng, h.cls(v)), tree(h, v)),
        FA([r, x], z3.Implies(z3.And(In(v, r), Desc(r, x)),
                              z3.And(is_composed(eng, h.cls(r)), m.has(tk), z3.Or(x == ck, Desc(ck, x)))), patterns=[Desc(r, x)]))


def subwf_clause(eng, h, v, name='subtree-well-formed', guard=None):
    """precondition clause carrying `subwf`; at call sites it is re-established from the caller's own clause plus a
    frame obligation on the structure fields inside the subtree (pyvc.interp_call.apply_contract)"""
    g = guard if guard is not None else z3.BoolVal(True)
    return (name, z3.Implies(g, subwf(eng, h, v)),
            {'static': True, 'fn': (lambda hh, eng=eng, v=v, g=g: z3.Implies(g, subwf(eng, hh, v))),
             'scope': (lambda r, v=v, g=g: z3.And(g, In(v, r))),
             'scope_dict': (lambda r, v=v, g=g, eng=eng, h=h: z3.And(g, In(v, r), is_composed(eng, h.cls(r))))})


def WFT(r):
    return z3.BoolVal(True)


def wft_axiom(eng, h):
    return z3.BoolVal(True)


def desc_valid(h, r):
    x = z3.Int('!dx')
    return FA([x], z3.Implies(Desc(r, x), valid_flags(h, x)), patterns=[Desc(r, x)])


def early_return(h, s):
    """_propagate_implicit_values has nothing to do"""
    return z3.Or(z3.And(is_none(h.get('_implicit_delete', s)), is_none(h.get('_implicit_allow_new', s)), is_none(h.get('_implicit_safe', s))),
                 z3.And(z3.Not(is_none(h.get('_delete', s))), z3.Not(is_none(h.get('_allow_new', s))), z3.Not(is_none(h.get('_safe', s)))))


STRUCT_FIELDS = ['_children', '$cls', '$mlen', '$mkeyat', '$mpos', '$mval']
IMPLICIT = ['_implicit_delete', '_implicit_allow_new', '_implicit_safe']


def ghost_defs(real, ids):
    """concrete interpretation of the ghost relations on a real object graph (replay): Desc = reachability through
    _children, WFT = root of a subtree in which no node occurs twice"""
    objs = {r: o for r, o in real.items() if hasattr(o, '__dict__') and '_children' in getattr(o, '__dict__', {})}
    allnodes = {}
    def kids(o):
        ch = o.__dict__.get('_children')
        return list(ch.values()) if isinstance(ch, dict) else []
    def ref(o):
        return ids.get(id(o))
    pairs = set()
    wft = set()
    seen_all = {}
    def walk(o, stack):
        out = []
        for c in kids(o):
            if any(c is s for s in stack) or ref(c) is None:
                continue
            out.append(c)
            out.extend(walk(c, stack + [c]))
        return out
    nodes = [o for r, o in real.items() if hasattr(o, '__dict__')]
    for o in nodes:
        d = walk(o, [o])
        for x in d:
            if ref(o) is not None and ref(x) is not None:
                pairs.add((ref(o), ref(x)))
        rs = [id(x) for x in d] + [id(o)]
        if len(rs) == len(set(rs)) and ref(o) is not None:
            wft.add(ref(o))
    a, b = z3.Int('!ga'), z3.Int('!gb')
    tops = []
    for o in nodes:
        ch = o.__dict__.get('_children')
        if not isinstance(ch, dict) or ref(o) is None:
            continue
        for k, c in ch.items():
            if ref(c) is None or not isinstance(k, (int, str)) or isinstance(k, bool):
                continue
            kt = sym.mk_int(k) if isinstance(k, int) else sym.mk_str(k)
            for x in [c] + walk(c, [o, c]):
                if ref(x) is not None:
                    tops.append((ref(o), ref(x), kt))
    topdef = sym.NONE
    for ro, rx, kt in tops:
        topdef = z3.If(z3.And(a == ro, b == rx), kt, topdef)
    return [FA([a, b], TopK(a, b) == topdef),FA([a, b], Desc(a, b) == z3.Or([z3.And(a == x, b == y) for x, y in sorted(pairs)] or [z3.BoolVal(False)])),
]
