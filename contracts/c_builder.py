"""C06: stream container, stage splicing (Builder.preprocess), left fold (Builder.flatten)."""
import z3
from pyvc import sym
from pyvc.sym import Val, is_none, is_bool, is_int, is_str, is_ref, is_undef, b_of, i_of, r_of, ListT, MapT, mk_str
from pyvc.contract import Contract, P, Raises, Loop
from pyvc.values import SV, PathV, TupleV, OpaqueV
from . import spec as S

ST = 'awesomeyaml/nodes/stream.py::'
L = 'awesomeyaml/nodes/list.py::'
B = 'awesomeyaml/builder.py::'
N = 'awesomeyaml/nodes/node.py::'


def register(R):
    # ---- StreamNode.__init__: wraps already parsed stages without giving them an explicit merge flag -------
    R.add(Contract(L + 'ConfigList.__init__', [P.node('self', 'ConfigList')], name='abstract', assume_only=True, effects=[('list-init',)],
                   modifies=lambda c: [(f, 'all') for f in ('$llen', '$litem', '$mlen', '$mkeyat', '$mpos', '$mval', '_children', '_delete', '_priority', '_allow_new', '_safe',
                                                            '_implicit_delete', '_implicit_allow_new', '_implicit_safe', '_default_safe', '_source_file', '_metadata', '_idx', '_pyyaml_node')],
                   props=('C06',), opts={'bind_partial': True, 'callee': True},
                   note='list node construction from existing element nodes: every flag given as keyword is recorded on the container and INHERITED by the elements (ComposedNode.__init__ / _get_child_kwargs, proved separately)'))

    def st_setup(it, fr, sc):
        r = it.run.alloc('dict')
        it.heap.put_m(r, MapT.empty())
        fr.loc['kwargs'] = SV(sym.mk_ref(r), hint=frozenset(['dict']))

    def gate_init(sc, kw):
        # flags handed to the list constructor: none that the wrapped stages would inherit as an explicit decision
        kws = kw.get('kwargs', {})
        bad = [k for k in ('delete', 'allow_new', 'safe', 'priority', 'implicit_delete', 'implicit_allow_new', 'implicit_safe') if k in kws]
        return z3.BoolVal(not bad)

    R.add(Contract(ST + 'StreamNode.__init__', [P.node('self', 'StreamNode', exact=True), P.node('builder', 'SubBuilder', exact=True)],
                   modifies=lambda c: [(f, 'all') for f in ('$llen', '$litem', '$mlen', '$mkeyat', '$mpos', '$mval', '_children', '_delete', '_priority', '_allow_new', '_safe',
                                                            '_implicit_delete', '_implicit_allow_new', '_implicit_safe', '_default_safe', '_source_file', '_metadata', '_idx', '_pyyaml_node', 'builder')],
                   ensures=[('C06.remembers-its-builder', lambda c: c.post.get('builder', c.ref('self')) == c['builder'])],
                   props=('C06',), opts={'setup': st_setup, 'bind_partial': True, 'no_search': True, 'no_frame': True,
                                         'watch': {L + 'ConfigList.__init__': 'wrap-stages'}, 'gates': {'wrap-stages': gate_init, 'list-init': lambda sc, kw: z3.BoolVal(True)}},
                   note='C06: wrapping the stages of an include must not change any effective flag of any node of any stage: no merge-control keyword reaches the container constructor'))

    # ---- Builder.preprocess: stages are spliced in place, in order -----------------------------------------
    Pre = z3.Function('Preprocessed', sym.I, Val)              # ghost: result of preprocessing a stage (itself, a new node, or a stream)

    def prep_result(c, it):
        return SV(Pre(c.ref('self')))

    R.add(Contract(N + 'ConfigNode.ayns.preprocess', [P.node('self', 'ConfigNode'), P.node('builder', 'Builder')], name='abstract', assume_only=True,
                   modifies=lambda c: [(f, (lambda r, c=c: z3.And(r != r_of(c.pre.get('stages', c.ref('builder'))), r != c.ref('builder')))) for f in ('$llen', '$litem', '$mlen', '$mkeyat', '$mpos', '$mval')],
                   ensures=[('result', lambda c: z3.And(is_ref(c.rt), r_of(c.rt) != 0, c.eng.isinstance_term(c.post.cls(r_of(c.rt)), 'ConfigNode'),
                                                        z3.Implies(r_of(c.rt) > 0, c.post.cls(r_of(c.rt)) == c.pre.cls(r_of(c.rt))))),
                            ('a-stream-result-owns-its-own-stage-list', lambda c: _stream_ok(c))],
                   raises=[Raises('PreprocessError'), Raises('FileNotFoundError')], result=prep_result, props=('C06',),
                   note='preprocessing of one stage (includes are read through a SUB-builder): does not touch the stage list of the builder that runs it'))
    R.inline_keys |= {B + 'Builder.current_stage', ST + 'StreamNode.stages'}

    def stages(h, b):
        return h.l(r_of(h.get('stages', b)))

    def prep_inv(c, L_):
        b = c.ref('self')
        l0, l1 = stages(L_.entry_heap, b), stages(L_.heap, b)
        i = i_of(L_.t('i'))
        p = z3.Int('!pp')
        return [('stage-list-object-stable', L_.heap.get('stages', b) == L_.entry_heap.get('stages', b)),
                ('position-in-range', z3.And(is_int(L_.t('i')), 0 <= i, i <= l1.len, l0.len >= 0)),
                ('C06.unprocessed-stages-follow-unchanged-and-in-order',
                 z3.And(l1.len - i == l0.len - L_.k, L_.k >= 0, L_.k <= l0.len,
                        S.FA([p], z3.Implies(z3.And(i <= p, p < l1.len), l1.get(p) == l0.get(p - i + L_.k)), patterns=[l1.get(p)]))),
                ('current-stage-marker-restored', L_.heap.get('_current_stage', b) == L_.entry_heap.get('_current_stage', b))]

    R.add(Contract(B + 'Builder.preprocess', [P.node('self', 'Builder', exact=True)],
                   requires=lambda c: [('stages-is-a-list', z3.And(is_ref(c.pre.get('stages', c.ref('self'))), r_of(c.pre.get('stages', c.ref('self'))) > 0,
                                                                  c.pre.cls(r_of(c.pre.get('stages', c.ref('self')))) == c.cid('list'), stages(c.pre, c.ref('self')).len >= 0)),
                                       ('stages-are-nodes', _all_nodes(c, c.pre, c.ref('self')))],
                   modifies=lambda c: [(f, 'all') for f in ('$llen', '$litem', '$mlen', '$mkeyat', '$mpos', '$mval', '_current_stage')],
                   raises=[Raises('PreprocessError'), Raises('FileNotFoundError'), Raises('AssertionError', name='empty-substream')],
                   ensures=[('C06.current-stage-marker-restored', lambda c: c.post.get('_current_stage', c.ref('self')) == c.pre.get('_current_stage', c.ref('self')))],
                   loops={0: Loop(prep_inv, mod_locals=['i', '_i', 'stage', 'new_stage'], mod_fields=['$mlen', '$mkeyat', '$mpos', '$mval', '$llen', '$litem', '_current_stage'])},
                   props=('C06',), opts={'no_search': True, 'asserts_are_checks': True},
                   note='splice loop: with k original stages consumed, the remaining ones follow position i unchanged and in order (one-level; what a stage is replaced by is the abstract result of its preprocessing)'))


def _cls_pos(h1, h0):
    r = z3.Int('!cr')
    return S.FA([r], z3.Implies(r > 0, h1.cls(r) == h0.cls(r)))


def _stream_ok(c):
    rr = r_of(c.rt)
    sb = r_of(c.post.get('builder', rr))
    sl = r_of(c.post.get('stages', sb))
    mine = r_of(c.pre.get('stages', c.ref('builder')))
    return z3.Implies(c.eng.isinstance_term(c.post.cls(rr), 'StreamNode'),
                      z3.And(is_ref(c.post.get('builder', rr)), is_ref(c.post.get('stages', sb)), sl != mine, sl != 0, c.post.cls(sl) == c.cid('list'),
                             c.post.l(sl).len >= 0, c.eng.isinstance_term(c.post.cls(sb), 'Builder')))


def _all_nodes(c, h, b):
    l = h.l(r_of(h.get('stages', b)))
    p = z3.Int('!sp')
    return S.FA([p], z3.Implies(z3.And(0 <= p, p < l.len), z3.And(is_ref(l.get(p)), r_of(l.get(p)) > 0, c.eng.isinstance_term(h.cls(r_of(l.get(p))), 'ConfigNode'))), patterns=[l.get(p)])


def register_flatten(R):
    C = 'awesomeyaml/nodes/composed.py::'
    MergeRes = z3.Function('MergeRes', Val, Val, Val)        # ghost: the node returned by older.merge(newer)
    FoldV = z3.Function('FoldV', sym.I, Val)                 # ghost: result of folding the first j stages
    STORE = ('$llen', '$litem', '$mlen', '$mkeyat', '$mpos', '$mval')

    def not_stage_list(c, bref_term):
        return lambda r, c=c: r != bref_term

    R.add(Contract(N + 'ConfigNode.ayns.merge', [P.node('self', 'ConfigNode'), P.val('other', 'any')], name='abstract', assume_only=True, effects=[('merge',)],
                   modifies=lambda c: [(f, (lambda r, c=c: z3.Not(c.eng.isinstance_term(c.pre.cls(r), 'list') if False else z3.BoolVal(False)))) for f in ()],
                   ensures=[('result', lambda c: z3.And(c.rt == MergeRes(c['self'], c['other']), is_ref(c.rt), r_of(c.rt) > 0, c.eng.isinstance_term(c.post.cls(r_of(c.rt)), 'ConfigNode')))],
                   raises=[Raises('MergeError'), Raises('PremergeError'), Raises('ValueError')], result=P.val('result', 'any'), props=('C02', 'C03'),
                   note='merge of two stages (premerge + on_merge): abstract here (its content is the subject of C02-C05); the stage list of the builder is not touched'))
    R.add(Contract(N + 'ConfigNode.ayns.premerge', [P.node('self', 'ConfigNode'), P.val('into', 'any')], name='identity-for-plain-stages', assume_only=True, pure=True,
                   ensures=[('plain-first-stage-is-returned-itself', lambda c: c.rt == c['self'])], result=P.val('result', 'any'), props=('C02',),
                   note='pre-merge of the FIRST stage against nothing: a stage without pre-merge operators is returned itself (operators on a first stage: C16 first-stage contracts)'))
    for key in (N + 'ConfigNode.ayns._require_all_new', C + 'ComposedNode.ayns._require_all_new'):
        pass

    def stages(h, b):
        return h.l(r_of(h.get('stages', b)))

    def req(c):
        b = c.ref('self')
        l = stages(c.pre, b)
        j = z3.Int('!fj')
        return [('stages-is-a-list', z3.And(is_ref(c.pre.get('stages', b)), r_of(c.pre.get('stages', b)) > 0, c.pre.cls(r_of(c.pre.get('stages', b))) == c.cid('list'), l.len >= 1)),
                ('stages-are-nodes', _all_nodes(c, c.pre, b)),
                ('definition-of-the-left-fold', z3.And(FoldV(1) == l.get(0), S.FA([j], z3.Implies(z3.And(1 <= j, j < l.len), FoldV(j + 1) == MergeRes(FoldV(j), l.get(j))), patterns=[FoldV(j + 1)])))]

    def inv0(c, L_):
        b = c.ref('self')
        return [('stage-list-untouched', z3.And(L_.heap.get('stages', b) == L_.entry_heap.get('stages', b), stages(L_.heap, b).eq(stages(L_.entry_heap, b)))),
                ('classes', _cls_pos(L_.heap, L_.entry_heap))]

    def inv1(c, L_):
        b = c.ref('self')
        l0 = stages(c.pre, b)
        return [('stage-list-untouched', z3.And(L_.heap.get('stages', b) == c.pre.get('stages', b), stages(L_.heap, b).eq(l0))),
                ('C02+C03+C14.root-is-the-left-fold-of-the-stages-merged-so-far', L_.t('root') == FoldV(L_.i + 1)),
                ('root-is-a-node', z3.And(is_ref(L_.t('root')), r_of(L_.t('root')) > 0, c.eng.isinstance_term(L_.heap.cls(r_of(L_.t('root'))), 'ConfigNode'))),
                ('classes', _cls_pos(L_.heap, c.pre))]

    def ens(c):
        b = c.ref('self')
        l0, l1 = stages(c.pre, b), stages(c.post, b)
        # C08 "new paths count against the config built so far, which is EMPTY for the first stage": however many stages there are (one
        # included), a normal return is preceded by the new-path check of the first stage
        checked = [e for e in c.events if e[0] == 'require-new']
        first_checked = z3.Or([e[2]['args'][0].t == l0.get(0) for e in checked]) if checked else z3.BoolVal(False)
        return [('C02+C03+C14.one-stage-left:the-left-fold-of-all-stages', z3.And(l1.len == 1, l1.get(0) == FoldV(l0.len))),
                ('C08.first-stage-is-checked-against-the-empty-config-before-any-normal-return', first_checked)]

    def gate_merge(sc, kw):
        # the first-stage new-path check has returned before anything is merged
        prior = [e for e in sc.events if e[2].get('index', -1) < kw['index']]
        return z3.BoolVal(any(e[0] == 'require-new' for e in prior))

    USE = {N + 'ConfigNode.ayns.merge': 'abstract', N + 'ConfigNode.ayns.premerge': 'identity-for-plain-stages',
           N + 'ConfigNode.ayns._require_all_new': 'abstract', C + 'ComposedNode.ayns._require_all_new': 'abstract'}
    R.add(Contract(B + 'Builder.flatten', [P.node('self', 'Builder', exact=True)], requires=req,
                   modifies=lambda c: [(f, 'all') for f in STORE + ('stages',)],
                   raises=[Raises('ValueError', name='C02.only-mapping-documents'), Raises('MergeError'), Raises('PremergeError')],
                   ensures=[('flatten', ens)], props=('C02', 'C03', 'C08', 'C14'),
                   loops={0: Loop(inv0, mod_locals=['stage'], mod_fields=[]), 1: Loop(inv1, mod_locals=['root', 'i'], mod_fields=['$mlen', '$mkeyat', '$mpos', '$mval'])},
                   opts={'use': USE, 'no_search': True, 'no_frame': True,
                         'watch': {N + 'ConfigNode.ayns._require_all_new': 'require-new', C + 'ComposedNode.ayns._require_all_new': 'require-new'},
                         'gates': {'merge': gate_merge, 'require-new': lambda sc, kw: z3.BoolVal(True)}},
                   note='left fold: after the loop the single remaining stage is merge(...merge(merge(s0, s1), s2)..., sn) (C02/C03 for any number of stages follow from the one-level merge contracts by induction over this fold); C08: the first-stage new-path check precedes every merge'))


def register_stream_premerge(R):
    """StreamNode.ayns.on_premerge_impl (C06 'key: !include [..] equals placing the MERGED content of those files under key'): the stages of
    the include are flattened first, and what is pre-merged (and kept as the stream's only item) is the stage the sub-builder holds
    AFTER flattening - the merge of two stages may return the other node, so a reference taken before is not the merged content."""
    ALLF = ('$llen', '$litem', '$mlen', '$mkeyat', '$mpos', '$mval', 'stages', '_children', '_delete', '_priority', '_allow_new', '_safe', '_implicit_delete',
            '_implicit_allow_new', '_implicit_safe', '_default_safe', '_metadata', '_pyyaml_node', '$pset', '_func')
    anyall = lambda c: [(f, 'all') for f in ALLF]
    PreRes = z3.Function('PremergeResult', Val, Val)
    R.add(Contract(B + 'Builder.flatten', [P.node('self', 'Builder')], name='abstract', assume_only=True, modifies=anyall,
                   ensures=[('one-stage-left', lambda c: z3.And(is_ref(c.post.get('stages', c.ref('self'))), c.post.l(r_of(c.post.get('stages', c.ref('self')))).len == 1))],
                   raises=[Raises('MergeError'), Raises('PremergeError'), Raises('ValueError')], props=('C06',), opts={'callee': False},
                   note='left fold of the stages (proved as Builder.flatten#default): afterwards the stage list holds the single merged stage, which need not be the object that was first before'))
    R.add(Contract(N + 'ConfigNode.ayns.on_premerge', [P.node('self', 'ConfigNode'), P.path('path'), P.val('into', 'any')], name='abstract-named', assume_only=True, modifies=anyall,
                   ensures=[('result', lambda c: c.rt == PreRes(c['self']))], result=P.val('result', 'any'), raises=[Raises('PremergeError')], props=('C06',), opts={'callee': False},
                   note='pre-merge hook of the flattened stage'))
    for nm in ('clear', 'append'):
        R.add(Contract(L + 'ConfigList.' + nm, [P.node('self', 'ConfigList')] + ([P.val('value', 'any')] if nm == 'append' else []), name='abstract', assume_only=True, modifies=anyall,
                       props=('C06',), opts={'callee': False}, note='container mutators of the stream node (proved for C17)'))

    def stage0(h, s):
        b = r_of(h.get('builder', s))
        return h.l(r_of(h.get('stages', b))).get(0)

    def gate_pre(sc, kw):
        return kw['args'][0].t == stage0(kw['heap'], sc.ref('self'))

    def gate_app(sc, kw):
        return z3.And(kw['args'][0].t == sc['self'], kw['args'][1].t == stage0(kw['heap'], sc.ref('self')))

    TAG = 'C06.what-is-pre-merged-and-kept-is-the-stage-held-after-flattening'
    R.add(Contract(ST + 'StreamNode.ayns.on_premerge_impl', [P.node('self', 'StreamNode', exact=True), P.path('path'), P.val('into', 'any')],
                   requires=lambda c: [('has-a-builder', z3.And(is_ref(c.pre.get('builder', c.ref('self'))), r_of(c.pre.get('builder', c.ref('self'))) > 0,
                                                                c.eng.isinstance_term(c.pre.cls(r_of(c.pre.get('builder', c.ref('self')))), 'Builder')))],
                   modifies=anyall, raises=[Raises('MergeError'), Raises('PremergeError'), Raises('ValueError')], result=P.val('result', 'any'), props=('C06',),
                   opts={'use': {B + 'Builder.flatten': 'abstract', N + 'ConfigNode.ayns.on_premerge': 'abstract-named', L + 'ConfigList.clear': 'abstract', L + 'ConfigList.append': 'abstract'},
                         'watch': {N + 'ConfigNode.ayns.on_premerge': TAG + ':premerge', L + 'ConfigList.append': TAG + ':keep'},
                         'gates': {TAG + ':premerge': gate_pre, TAG + ':keep': gate_app},
                         'verify_only': True, 'no_search': True, 'no_frame': True, 'skip_kinds': ('pre', 'safety')},
                   note='order of flatten / read of the first stage; mutators and the fold are used through abstract contracts (proved elsewhere)'))


def _reg_all(R):
    register(R)
    register_flatten(R)
    register_stream_premerge(R)
