"""The key loop of the composed merge (ComposedNode.ayns.on_merge_impl, non-deleting newer mapping onto an older mapping) under
a one-level functional contract (C02, also C03/C08).

For every key k of the newer mapping B, in order, against the older mapping A (child views):
   k absent in A   -> A[k] becomes B[k] itself (adopted after the new-path check; appended)
   k present in A  -> A[k] becomes MergeRes(A[k], B[k]), the result of merging the two children (the recursive call, used through
                      an assumed frame-level contract: it returns one of its two arguments and touches only their subtrees),
                      or the key is dropped - which happens only when an explicit delete flag was read as true (gate)
   keys of A that B does not mention keep their child object.
The node returned has exactly this child view (after the final flag combination, which may promote the other node: assumed to
keep the content).  The lift to whole trees is induction over the finite tree (MergeRes is the same function one level down)."""
import z3
from pyvc import sym
from pyvc.sym import Val, is_none, is_bool, is_ref, b_of, r_of
from pyvc.contract import Contract, P, Raises, Loop
from pyvc.values import SV, PathV
from . import spec as S
from .c_containers import inv_dict, chref, USE_VIEWS, common_req
from .c_filter import Own, owns, stay

C = 'awesomeyaml/nodes/composed.py::'
D = 'awesomeyaml/nodes/dict.py::'
N = 'awesomeyaml/nodes/node.py::'
KEY = C + 'ComposedNode.ayns.on_merge_impl'
MergeRes = z3.Function('ChildMergeRes', sym.I, sym.I, Val)
NODEF = ['_priority', '_delete', '_allow_new', '_safe', '_implicit_delete', '_implicit_allow_new', '_implicit_safe', '_default_safe', '_metadata',
         '_pyyaml_node', '$mlen', '$mkeyat', '$mpos', '$mval', '$llen', '$litem', '$pset']
DM = ('$mlen', '$mkeyat', '$mpos', '$mval')


def inside2(h, a, b, r):
    """r is a node of one of the two subtrees, or the child-view dict of such a node"""
    return z3.Or(S.In(a, r), S.In(b, r), z3.And(z3.Or(S.In(a, Own(r)), S.In(b, Own(r))), chref(h, Own(r)) == r))


def register(R):
    md = lambda n: P.node(n, 'ConfigDict', exact=True)

    # ---- assumed: the recursive merge of two children, frame level ------------------------------------------------------
    R.add(Contract(N + 'ConfigNode.ayns.on_merge', [P.node('self', 'ConfigNode'), P.path('path'), P.node('other', 'ConfigNode')], name='child-merge', assume_only=True,
                   modifies=lambda c: [(f, (lambda r, c=c: inside2(c.pre, c.ref('self'), c.ref('other'), r))) for f in NODEF] + [('_func', (lambda r, c=c: z3.Or(r == c.ref('self'), r == c.ref('other'))))],
                   ensures=[('result', lambda c: z3.And(c.rt == MergeRes(c.ref('self'), c.ref('other')), z3.Or(c.rt == c['self'], c.rt == c['other']))),
                            ('classes-and-child-dicts-stay', lambda c: stay(c.post, c.pre, fields=('$cls', '_children'))),
                            ('flags-stay-valid', lambda c: z3.And(S.valid_flags(c.post, c.ref('self')), S.valid_flags(c.post, c.ref('other'))))],
                   result=P.val('result', 'any'), raises=[Raises('MergeError'), Raises('ValueError'), Raises('TypeError'), Raises('KeyError'), Raises('IndexError')],
                   props=('C02',), opts={'callee': False},
                   note='merge of two children (rethrow wrapper + on_merge_impl of the class): returns one of its two arguments (possibly promoted), touches only their two subtrees; '
                        'its result is the ghost MergeRes(child, value) - the same function this contract describes one level down'))
    for fn in ('_replace_self', '_replace_other'):
        R.add(Contract(N + 'ConfigNode.' + fn, [P.node('self', 'ConfigNode'), P.node('other', 'ConfigNode'), P.val('allow_promotions', 'bool')], name='content-kept', assume_only=True,
                       modifies=lambda c: [(f, (lambda r, c=c: z3.Or(r == c.ref('self'), r == c.ref('other'), S.Desc(c.ref('self'), r), S.Desc(c.ref('other'), r)))) for f in NODEF] +
                                          [(f, 'all') for f in ('_children', '_func')],
                       ensures=[('result-is-one-of-the-two', lambda c: z3.Or(c.rt == c['self'], c.rt == c['other'])),
                                ('content-of-the-receiver-is-what-the-result-holds', lambda c: S.children(c.post, r_of(c.rt)).eq(S.children(c.pre, c.ref('self'))))],
                       result=P.val('result', 'any'), props=('C02',), opts={'callee': False},
                       note='final flag combination with possible type promotion (_maybe_promote, NOT under contract): whichever node is returned holds the child view the receiver had'))

    from .c_frames import FLAGMODS

    def adopt_ens(c):
        s = c.ref('self')
        m0, m1 = S.children(c.pre, s), S.children(c.post, s)
        return [('views-agree', inv_dict(c, c.post, s)), ('node-stored-itself', m1.eq(m0.set(c['name'], c['value']))),
                ('flags-of-the-adopted-node-stay-valid', S.valid_flags(c.post, r_of(c['value'])))]
    R.add(Contract(D + 'ConfigDict.ayns.set_child', [md('self'), P.val('name', 'key'), P.node('value', 'ConfigNode')], name='adopt-node-into-mapping', assume_only=True,
                   requires=lambda c: common_req(c, value=None) + [('Inv_views', inv_dict(c, c.pre, c.ref('self')))],
                   modifies=lambda c: [(f, [chref(c.pre, c.ref('self')), c.ref('self')]) for f in DM] + [(f, (lambda r, c=c: S.In(c.ref('value'), r))) for f in FLAGMODS],
                   ensures=[('adopt', adopt_ens)], raises=[Raises('ValueError')], props=('C02',), opts={'callee': False},
                   note='refinement of the PROVED contract ConfigDict.ayns.set_child (views agree, key bound to the node itself) by a precise frame for the flag fields: adoption writes '
                        'inherited flags only into the adopted node and below it (what adoption writes there is proved in c_adopt / c_composed); assumed here'))

    def mB_of(c, h):
        return S.children(h, c.ref('other'))

    def req(c):
        s, o = c.ref('self'), c.ref('other')
        x = z3.Int('!kx')
        return common_req(c, value=None) + [
            ('valid', z3.And(S.valid_flags(c.pre, s), S.valid_flags(c.pre, o), S.desc_valid(c.pre, s), S.desc_valid(c.pre, o))),
            S.subwf_clause(c.eng, c.pre, s), S.subwf_clause(c.eng, c.pre, o, name='newer-subtree-well-formed'),
            ('Inv_views', inv_dict(c, c.pre, s)),
            ('nodes-own-their-child-dicts', z3.And(owns(c, c.pre, s), owns(c, c.pre, o))),
            ('the-two-trees-are-disjoint', S.FA([x], z3.Implies(S.In(s, x), z3.Not(S.In(o, x))), patterns=[S.Desc(s, x)])),
            ('newer-mapping-does-not-delete', z3.Not(S.delete_eff(c.eng, c.pre, o))),
            ('newer-len', mB_of(c, c.pre).len >= 0),
            ('keys-are-names-or-indices', z3.And(*[S.FA([z3.Const('!kk', Val)], z3.Implies(m_.has(z3.Const('!kk', Val)), z3.Or(sym.is_int(z3.Const('!kk', Val)), sym.is_str(z3.Const('!kk', Val)))),
                                                        patterns=[z3.Select(m_.pos, z3.Const('!kk', Val))]) for m_ in (S.children(c.pre, s), mB_of(c, c.pre))]))]

    def clauses(c, h, node, m0, mB, upto):
        """child view of `node` in heap h against the entry views m0 (older) and mB (newer), keys of mB before position `upto` done"""
        m = S.children(h, node)
        k = z3.Const('!lk', Val)
        done = lambda kk: z3.And(mB.has(kk), z3.Select(mB.pos, kk) < upto)
        a0 = lambda kk: r_of(m0.get(kk))
        b0 = lambda kk: r_of(mB.get(kk))
        pat = [z3.Select(m.pos, k)]
        return [
            ('C02.no-key-from-nowhere', S.FA([k], z3.Implies(m.has(k), z3.Or(m0.has(k), done(k))), patterns=pat)),
            ('C02.keys-the-newer-mapping-does-not-mention-keep-their-child', S.FA([k], z3.Implies(z3.And(m0.has(k), z3.Not(done(k))), z3.And(m.has(k), m.get(k) == m0.get(k))), patterns=pat + [z3.Select(m0.pos, k)])),
            ('C02.new-keys-are-adopted-with-the-newer-child-itself', S.FA([k], z3.Implies(z3.And(done(k), z3.Not(m0.has(k))), z3.And(m.has(k), m.get(k) == mB.get(k))), patterns=pat + [z3.Select(mB.pos, k)])),
            ('C02.common-keys-hold-the-merge-of-the-two-children', S.FA([k], z3.Implies(z3.And(done(k), m0.has(k), m.has(k)), m.get(k) == MergeRes(a0(k), b0(k))), patterns=pat)),
        ]

    def inv(c, L):
        s, o = c.ref('self'), c.ref('other')
        e, h = L.entry_heap, L.heap
        m0, mB = S.children(c.pre, s), mB_of(c, c.pre)
        mm = S.children(h, s)
        kk = z3.Const('!wk2', Val)
        return clauses(c, h, s, m0, mB, L.i) + [
            ('newer-view-untouched', z3.And(S.children(h, o).eq(mB), chref(h, o) == chref(c.pre, o))),
            ('views-agree', inv_dict(c, h, s)),
            ('children-dict', z3.And(chref(h, s) == chref(c.pre, s), h.cls(chref(h, s)) == c.cid('dict'))),
            ('children-dict-wellformed', z3.And(mm.len >= 0, S.FA([kk], z3.And(z3.Select(mm.pos, kk) >= -1, z3.Select(mm.pos, kk) < mm.len), patterns=[z3.Select(mm.pos, kk)])), {'builtin_axiom': True}),
            ('classes-and-child-dicts-stay', stay(h, c.pre, fields=('$cls', '_children'))),
            ('flags-valid', z3.And(S.valid_flags(h, s), S.valid_flags(h, o)))]

    def ens(c):
        s, o = c.ref('self'), c.ref('other')
        m0, mB = S.children(c.pre, s), mB_of(c, c.pre)
        return [('C02.result-is-one-of-the-two-nodes', z3.Or(c.rt == c['self'], c.rt == c['other']))] + clauses(c, c.post, r_of(c.rt), m0, mB, mB.len)

    def gate_remove(sc, kw):
        # a key is dropped only when an explicit delete flag was read as true on this path (tag-free documents never drop a key)
        it = sc.interp
        h = kw['heap']
        x = z3.Int('!gx')
        pc = z3.And(sc.cur_event[1]) if sc.cur_event[1] else z3.BoolVal(True)
        return z3.Exists([x], z3.And(x > 0, h.get('_delete', x) == sym.TRUE))

    def mod_where(c, L):
        s, o = c.ref('self'), c.ref('other')
        e = L.entry_heap
        pred = lambda r, e=e: z3.Or(inside2(e, s, o, r), r == chref(e, s))
        return [(f, pred) for f in NODEF + ['_func']]

    use = dict(USE_VIEWS)
    use.update({N + 'ConfigNode.ayns.on_merge': 'child-merge', N + 'ConfigNode._replace_self': 'content-kept', N + 'ConfigNode._replace_other': 'content-kept',
                D + 'ConfigDict.ayns.set_child': 'adopt-node-into-mapping', N + 'ConfigNode.ayns._require_all_new': 'abstract', C + 'ComposedNode.ayns._require_all_new': 'abstract', C + 'ComposedNode.ayns.filter_nodes': 'abstract'})
    R.add(Contract(KEY, [md('self'), P.path('path'), md('other')], name='mapping-key-loop', requires=req,
                   modifies=lambda c: [(f, 'all') for f in NODEF + ['_children', '_func']],
                   ensures=[('key-loop', ens)], result=P.val('result', 'any'),
                   raises=[Raises('ValueError'), Raises('MergeError'), Raises('TypeError'), Raises('KeyError'), Raises('IndexError')],
                   loops={0: Loop(inv, mod_locals=['key', 'value', 'child', 'merge', 'possibly_new_child'], mod_where=mod_where)},
                   props=('C02',),
                   opts={'use': use, 'verify_only': True, 'no_search': True, 'no_frame': True, 'assume_children_are_objects': True, 'skip_kinds': ('safety',),
                         'watch': {D + 'ConfigDict.ayns.remove_child': 'C02.drop-key'}, 'gates': {'C02.drop-key': gate_remove}, 'shards': 8},
                   note='older and newer node both plain mapping nodes, the newer one not deleting; list receivers and the deleting branch: bounded stand-ins'))


def _reg_all(R):
    register(R)
