"""ComposedNode.ayns.nodes_with_paths - the recursive tree walk - under a proved one-level contract (C14, also used by C08/C17).

The generator yields (path, node) pairs.  The engine records them component-wise in two ghost lists (paths in a ghost
table, node identities in a list) and maintains the ghost map `$ypos`: the position at which an object was last yielded.
With it, completeness needs no existential:

    sound     every yielded node is the receiver itself (only with include_self, and first) or one of its descendants
    complete  every such node x was yielded: 0 <= ypos[x] < len and the entry at ypos[x] is x
    count     the number of entries is (1 if include_self) + WalkLen(self), WalkLen = number of proper descendants
              (sound + complete + count: every node exactly once - pigeonhole over the finite tree, trusted)
    paths     the path yielded with node x is prefix ++ RelPath(self, x), the keys leading from the receiver to x

The recursive call is used through this same contract (one-level step over the ghost descendant relation; induction over
finite trees lifts it).  WalkLen / WalkOff / RelPath are ghost functions with DEFINITIONAL unfoldings (assumed; marked
ghost_def): WalkOff(s, i) = nodes below the first i children, RelPath(s, x) = [TopK(s, x)] ++ RelPath(child, x)."""
import z3
from pyvc import sym
from pyvc.sym import Val, is_none, is_bool, is_ref, b_of, r_of, ListT
from pyvc.contract import Contract, P, Raises, Loop
from pyvc.values import SV, PathV, IterV
from . import spec as S
from .c_config import WalkLen, RelPath

C = 'awesomeyaml/nodes/composed.py::'
KEY = C + 'ComposedNode.ayns.nodes_with_paths'
Off = z3.Function('WalkOff', sym.I, sym.I, sym.I)
LISTF = ('$llen', '$litem')


def refs_of(c):
    """(pairs, paths, nodes) ghost list identities: of the result at a call site, of the generator being verified otherwise"""
    res = c.res
    if isinstance(res, IterV) and res.kind == 'pairs':
        return res.b[1]
    return (c.x['yields'], c.x['yields0'], c.x['yields1'])


def inc_of(c):
    if 'include_self' not in c.a:
        return z3.BoolVal(False)          # the default written in the source (checked where the generator itself is verified)
    return b_of(c['include_self'])


def InS(s, inc, x):
    return z3.Or(z3.And(inc, x == s), S.Desc(s, x))


def valid_at(h, r1, x):
    """x was yielded: its recorded position is inside the list and holds x"""
    pos = z3.Select(h.get('$ypos', r1), x)
    l1 = h.l(r1)
    return z3.And(0 <= pos, pos < l1.len, l1.get(pos) == sym.mk_ref(x))


def prefix_of(c):
    p = c.a.get('prefix')
    return p.s if isinstance(p, PathV) else z3.Empty(sym.PathSort)


def path_ok(h, r0, r1, pref, s, j):
    return z3.Select(h.get('$ypath', r0), j) == z3.Concat(pref, RelPath(s, r_of(h.l(r1).get(j))))


def ghost_defs(c, h, s):
    m = S.children(h, s)
    i = z3.Int('!oi')
    x = z3.Int('!ox')
    ci = r_of(z3.Select(m.val, z3.Select(m.keyat, i)))
    tk = S.TopK(s, x)
    ck = r_of(m.get(tk))
    return [
        ('def:offsets', z3.And(Off(s, 0) == 0, WalkLen(s) == Off(s, m.len),
                               S.FA([i], z3.Implies(z3.And(0 <= i, i < m.len), Off(s, i + 1) == Off(s, i) + 1 + WalkLen(ci)), patterns=[Off(s, i)])), {'ghost_def': True}),
        ('def:sizes', S.FA([x], z3.And(WalkLen(x) >= 0, z3.Implies(z3.Not(S.is_composed(c.eng, h.cls(x))), WalkLen(x) == 0)), patterns=[WalkLen(x)]), {'ghost_def': True}),
        ('def:relative-path', z3.And(RelPath(s, s) == z3.Empty(sym.PathSort), S.FA([x], RelPath(x, x) == z3.Empty(sym.PathSort), patterns=[RelPath(x, x)]),
                                     S.FA([x], z3.Implies(S.Desc(s, x), RelPath(s, x) == z3.Concat(z3.Unit(tk), RelPath(ck, x))), patterns=[RelPath(s, x)])), {'ghost_def': True}),
    ]


def unique_top(h, s):
    """consequence of subwf (lemma tree:unique-top-child below): a node lives under exactly one child of s, the one TopK names"""
    m = S.children(h, s)
    k = z3.Const('!uk', Val)
    x = z3.Int('!ux')
    ck = r_of(m.get(k))
    return z3.And(S.FA([k], z3.Implies(m.has(k), S.TopK(s, ck) == k), patterns=[m.get(k)]),
                  S.FA([k, x], z3.Implies(z3.And(m.has(k), S.Desc(ck, x)), S.TopK(s, x) == k), patterns=[z3.MultiPattern(m.get(k), S.Desc(ck, x))]))


def register_lemma(R):
    from pyvc.tasks import Lemma

    def build(eng):
        h = sym.Heap(tag='HL')
        v = z3.Int('lemma_root')
        return [('C14.tree:every-node-lives-under-exactly-one-child(unique-top-child)', [S.subwf(eng, h, v), S.is_composed(eng, h.cls(v))], unique_top(h, v))]
    R.tasks.append(Lemma('lemma:tree-unique-top-child', ('C14', 'C08', 'C17'), build,
                         note='pure logic over the ghost tree relations: subtree well-formedness implies that TopK names the only child below which a node lives; used (as an assumed ghost fact) by the walk contract'))


def register(R):
    comp = lambda: P.node('self', 'ComposedNode')

    def req(c):
        s = c.ref('self')
        m = S.children(c.pre, s)
        k = z3.Const('!wk', Val)
        mode = []
        for nm in ('recursive', 'allow_duplicates'):
            v = c.a.get(nm)          # present at call sites (bound from the call or from the defaults in the source)
            if v is not None:
                mode.append((f'called-with-{nm}-True', v.t == sym.TRUE if isinstance(v, SV) else z3.BoolVal(False)))
        return mode + [S.subwf_clause(c.eng, c.pre, s),
                ('lemma:unique-top-child', unique_top(c.pre, s), {'ghost_def': True}),
                ] + ghost_defs(c, c.pre, s)

    def clauses(c, h, refs, s, inc, pref, done):
        """the four parts of the specification over the yields recorded so far; `done(x)`: x has been dealt with"""
        r, r0, r1 = refs
        l, l0, l1 = h.l(r), h.l(r0), h.l(r1)
        j = z3.Int('!yj')
        x = z3.Int('!yx')
        return [
            ('lengths-agree', z3.And(l.len == l1.len, l0.len == l1.len, l1.len >= 0)),
            ('C14.walk-yields-only-nodes-of-the-subtree', S.FA([j], z3.Implies(z3.And(0 <= j, j < l1.len),
                                                                               z3.And(is_ref(l1.get(j)), InS(s, inc, r_of(l1.get(j))), r_of(l1.get(j)) > 0)), patterns=[l1.get(j)])),
            ('C14.walk-yields-every-node-of-the-subtree', S.FA([x], z3.Implies(done(x), valid_at(h, r1, x)), patterns=[z3.Select(h.get('$ypos', r1), x), S.Desc(s, x)])),
            ('C14.walk-yields-the-receiver-when-asked-for', z3.Implies(inc, valid_at(h, r1, s))),
            ('C14.receiver-first-when-asked-for', z3.Implies(inc, z3.And(l1.len >= 1, l1.get(0) == sym.mk_ref(s)))),
            ('C14.each-node-comes-with-the-path-leading-to-it', S.FA([j], z3.Implies(z3.And(0 <= j, j < l1.len), path_ok(h, r0, r1, pref, s, j)), patterns=[l1.get(j)])),
        ]

    def ens(c):
        s = c.ref('self')
        inc = inc_of(c)
        refs = refs_of(c)
        l1 = c.post.l(refs[2])
        out = clauses(c, c.post, refs, s, inc, prefix_of(c), lambda x: InS(s, inc, x))
        out.append(('C14.as-many-entries-as-there-are-nodes', l1.len == z3.If(inc, 1, 0) + WalkLen(s)))
        return out

    def outer_inv(c, L):
        s = c.ref('self')
        inc = inc_of(c)
        m = S.children(L.entry_heap, s)
        refs = (c.x['yields'], c.x['yields0'], c.x['yields1'])
        l1 = L.heap.l(refs[2])
        done = lambda x: z3.Or(z3.And(inc, x == s), z3.And(S.Desc(s, x), z3.Select(m.pos, S.TopK(s, x)) < L.i))
        return clauses(c, L.heap, refs, s, inc, prefix_of(c), done) + [
            ('count', l1.len == z3.If(inc, 1, 0) + Off(s, L.i))]

    def inner_inv(c, L):
        s = c.ref('self')
        refs = (c.x['yields'], c.x['yields0'], c.x['yields1'])
        r, r0, r1 = refs
        h, e = L.heap, L.entry_heap
        l, l0, l1 = h.l(r), h.l(r0), h.l(r1)
        e1 = e.l(r1)
        base = e1.len
        res, tbl = L.it                # what is being iterated: the callee's node list and its table of paths
        j = z3.Int('!ij')
        t = z3.Int('!it')
        x = z3.Int('!ix')
        return [
            ('lengths', z3.And(l.len == base + L.i, l0.len == l.len, l1.len == l.len)),
            ('earlier-entries-untouched', S.FA([j], z3.Implies(z3.And(0 <= j, j < base), z3.And(l1.get(j) == e1.get(j),
                                                                                                z3.Select(h.get('$ypath', r0), j) == z3.Select(e.get('$ypath', r0), j))), patterns=[l1.get(j)])),
            ('copied-so-far', S.FA([t], z3.Implies(z3.And(0 <= t, t < L.i), z3.And(l1.get(base + t) == res.get(t),
                                                                                    z3.Select(h.get('$ypath', r0), base + t) == z3.Select(tbl, t))), patterns=[res.get(t)])),
            ('copied-so-far-by-position', S.FA([j], z3.Implies(z3.And(base <= j, j < base + L.i), z3.And(l1.get(j) == res.get(j - base),
                                                                                                          z3.Select(h.get('$ypath', r0), j) == z3.Select(tbl, j - base))), patterns=[l1.get(j)])),
            ('only-nodes-of-the-subtree', S.FA([j], z3.Implies(z3.And(0 <= j, j < l1.len), z3.And(is_ref(l1.get(j)), InS(s, inc_of(c), r_of(l1.get(j))), r_of(l1.get(j)) > 0)), patterns=[l1.get(j)])),
            ('paths-in-final-form', S.FA([j], z3.Implies(z3.And(0 <= j, j < l1.len), path_ok(h, r0, r1, prefix_of(c), s, j)), patterns=[l1.get(j)])),
            ('yielded-stays-yielded', S.FA([x], z3.Implies(valid_at(e, r1, x), valid_at(h, r1, x)), patterns=[z3.Select(h.get('$ypos', r1), x)])),
            ('copied-are-recorded', S.FA([t], z3.Implies(z3.And(0 <= t, t < L.i), valid_at(h, r1, r_of(res.get(t)))), patterns=[res.get(t)]))]

    def mods(c, L):
        refs = [c.x['yields'], c.x['yields0'], c.x['yields1']]
        return [(f, refs) for f in LISTF] + [('$ypath', [refs[1]]), ('$ypos', [refs[2]]), ('$set', [r_of(L.loc['memo'].t)])]

    def result(c, it):
        # at a call site: three new lists (pairs, paths, nodes) of unknown content; the postcondition describes them
        run = it.run
        refs = []
        for nm in ('pairs', 'paths', 'nodes'):
            r = run.alloc('list')
            it.heap.put_l(r, ListT.fresh(f'walk!{nm}!{run.nfresh}'))
            refs.append(r)
        run.nfresh += 1
        it.heap.put('$ypath', refs[1], run.fresh('walkpaths', z3.ArraySort(sym.I, sym.PathSort)))
        it.heap.put('$ypos', refs[2], run.fresh('walkpos', z3.ArraySort(sym.I, sym.I)))
        return IterV('pairs', it.heap.l(refs[2]), (it.heap.get('$ypath', refs[1]), tuple(refs)))

    def replay_direct(repo, obl_name):
        # the clauses on the real generator: small trees with every container kind (mappings, lists, function nodes with nested
        # arguments, path nodes), with and without the receiver, with a prefix; the ghost relation Desc is reachability through
        # the child view
        import importlib
        ay = importlib.import_module('awesomeyaml')
        from awesomeyaml.nodes.composed import ComposedNode
        docs = ["{a: 1, b: {c: [1, {d: 2}], e: {}}}",
                "{f: !call:builtins.dict {x: [1, {y: 2}], z: {w: 3}}, g: !bind:builtins.dict {k: [0]}}",
                "{l: [[1, 2], [3, [4]]], p: !path [a, b], r: !required }"]
        for text in docs:
            b = ay.Builder()
            b.add_source(text, raw_yaml=True)
            root = b.stages[0]
            subtrees = [([], root)]

            def sub(n, p):
                for k, ch in n.__dict__['_children'].items():
                    if isinstance(ch, ComposedNode):
                        subtrees.append((p + [k], ch))
                        sub(ch, p + [k])
            sub(root, [])
            for at, node in subtrees:
                ref = []

                def walk(n, p):
                    for k, ch in n.__dict__['_children'].items():
                        ref.append((p + [k], ch))
                        if isinstance(ch, ComposedNode):
                            walk(ch, p + [k])
                for inc in (False, True):
                    pref = ['pre', 0]
                    ref.clear()
                    walk(node, list(pref))
                    exp = ([(list(pref), node)] if inc else []) + ref
                    got = [(list(p), n) for p, n in node.ayns.nodes_with_paths(prefix=list(pref), include_self=inc)]
                    inp = {'document': text, 'receiver_at': at, 'include_self': inc, 'prefix': pref}
                    if len(got) != len(exp):
                        missing = [[str(x) if isinstance(x, str) else x for x in p] for p, n in exp if not any(n is g for _, g in got)]
                        return {'verdict': 'violates', 'input': inp, 'detail': f'walk of the node at {at!r} of {text!r} (include_self={inc}) yields {len(got)} entries, the subtree has {len(exp)} nodes; not yielded: {missing[:4]!r}'}
                    for (p, n), (q, m_) in zip(sorted(got, key=lambda e: repr(e[0])), sorted(exp, key=lambda e: repr(e[0]))):
                        if p != q or n is not m_:
                            return {'verdict': 'violates', 'input': inp, 'detail': f'walk of the node at {at!r} of {text!r}: entry {p!r} does not match the node found at {q!r}'}
        return {'verdict': 'holds', 'detail': 'walk equals the reference enumeration on all sample trees', 'input': None}

    for cname, pref in (('recursive-walk', P.path('prefix')), ('recursive-walk-no-prefix', P.const('prefix', None))):
      R.add(Contract(KEY, [comp(), pref, P.val('include_self', 'bool')], name=cname, requires=req, pure=True,
                   ensures=[('walk', ens)], result=result, props=('C14', 'C08', 'C17'),
                   loops={0: Loop(outer_inv, mod_locals=['name', 'child', 'child_path', 'path', 'node'], mod_at=mods),
                          1: Loop(inner_inv, mod_locals=['path', 'node'], mod_at=mods)},
                   opts={'bind_partial': True, 'no_search': True, 'use': {KEY: 'recursive-walk'}, 'assume_children_are_objects': True, 'shards': 8,
                         'replay_direct': replay_direct, 'no_model_replay': True},
                   note='recursive=True, allow_duplicates=True (the defaults written in the source); prefix a list path; include_self symbolic'))


def register_require_all_new(R):
    """ComposedNode.ayns._require_all_new (C08): raises iff some node of the subtree (the receiver included when asked for) does
    not allow new paths and its path is not among the exceptions - over the proved walk contract."""
    N = 'awesomeyaml/nodes/node.py::'

    def excepted(c, x):
        e = c.a['exceptions']
        return z3.And(z3.Not(is_none(e.t)), z3.Select(c.pre.get('$pset', r_of(e.t)), z3.Concat(c.a['path'].s, RelPath(c.ref('self'), x))))

    def offending(c, x):
        return z3.And(InS(c.ref('self'), b_of(c['include_self']), x), z3.Not(S.allow_new(c.pre, x)), z3.Not(excepted(c, x)))

    def some_offender(c):
        x = z3.Int('!nx')
        return z3.Exists([x], offending(c, x))

    def inv(c, L):
        nodes, _ = L.it
        j = z3.Int('!rj')
        return [('none-so-far', S.FA([j], z3.Implies(z3.And(0 <= j, j < L.i), z3.Not(offending(c, r_of(nodes.get(j))))), patterns=[nodes.get(j)]))]

    def req(c):
        s = c.ref('self')
        x = z3.Int('!vx')
        return [('valid', z3.And(S.valid_flags(c.pre, s), S.desc_valid(c.pre, s))), S.subwf_clause(c.eng, c.pre, s)]

    def replay_direct(repo, obl_name):
        import importlib, itertools
        ay = importlib.import_module('awesomeyaml')
        from awesomeyaml.nodes.composed import ComposedNode
        from awesomeyaml.nodes.node_path import NodePath
        docs = ["{a: !notnew {b: 1, c: [1, 2]}, d: 3}", "{a: {b: !notnew 1}, l: [1, !notnew {x: 2}]}", "{f: !call:builtins.dict {x: !notnew [1]}, g: {h: {i: 1}}}", "{a: {b: 1}}"]
        for text in docs:
            b = ay.Builder()
            b.add_source(text, raw_yaml=True)
            root = b.stages[0]
            subs = []

            def walk(n, p):
                subs.append((p, n))
                if isinstance(n, ComposedNode):
                    for k, ch in n.__dict__['_children'].items():
                        walk(ch, p + [k])
            walk(root, [])
            composed = [(p, n) for p, n in subs if isinstance(n, ComposedNode)]
            for at, node in composed:
                below = [(p, n) for p, n in subs if p[:len(at)] == at]
                bad = [p for p, n in below if not n.ayns.allow_new]
                excs = [None, set()] + [set([NodePath(p)]) for p in bad[:2]] + ([set(NodePath(p) for p in bad)] if bad else [])
                for inc, exc in itertools.product((True, False), excs):
                    expect = any((inc or p != at) and (exc is None or NodePath(p) not in exc) for p in bad)
                    try:
                        node.ayns._require_all_new(NodePath(at), 'replay', exceptions=exc, include_self=inc)
                        raised = False
                    except ValueError:
                        raised = True
                    if raised != expect:
                        return {'verdict': 'violates', 'input': {'document': text, 'receiver_at': [str(x) if isinstance(x, str) else x for x in at], 'include_self': inc,
                                                                 'exceptions': None if exc is None else sorted(str(e) for e in exc)},
                                'detail': f'_require_all_new on the node at {at!r} of {text!r} (include_self={inc}, exceptions={exc!r}): raised={raised}, but nodes not allowing new paths are at {bad!r}'}
        return {'verdict': 'holds', 'detail': 'raises exactly when a non-excepted !notnew node is in the subtree, on all samples', 'input': None}

    R.add(Contract(C + 'ComposedNode.ayns._require_all_new',
                   [P.node('self', 'ComposedNode'), P.path('path'), P.val('reason', 'any'), P.pset('exceptions', optional=True), P.val('include_self', 'bool')],
                   name='subtree', requires=req, pure=True,
                   raises=[Raises('ValueError', exact=True, name='C08.raises-iff-some-node-of-the-subtree-is-notnew-and-not-excepted', when=some_offender)],
                   loops={0: Loop(inv, mod_locals=['p', 'n'], mod_fields=[])},
                   props=('C08',), opts={'use': {KEY: 'recursive-walk'}, 'no_search': True, 'callee': False, 'replay_direct': replay_direct},
                   note='over the proved walk contract'))


def _reg_all(R):
    register(R)
    register_lemma(R)
    register_require_all_new(R)
