"""ComposedNode.ayns.filter_nodes on mapping nodes under a one-level functional contract (C04, also C15: deletion order).

The pruning walk of a deleting merge: a child is KEPT iff the predicate holds for it, or it is a container that is still
true-ish after having been pruned itself (something below it survived; function nodes are true-ish as long as they have a
target).  Everything else is removed from BOTH views of the receiver, the kept children are the same objects in the same
places, the receiver is returned, every removed path is added to `removed`.

The predicate is an uninterpreted function FilterCond(path, node) (assumed: it does not depend on the parts of the heap the
walk changes - true for maybe_keep / keep_if_exists, which read priorities and delete flags only).  The recursive call is used
through the frame-level contract `pruned-subtree`: it returns its receiver and touches only the child views / storage inside
that subtree (and the `removed` set).  `to_del` is tracked with the ghost map of append positions, so no existential is needed."""
import z3
from pyvc import sym
from pyvc.sym import Val, is_none, is_bool, is_ref, b_of, r_of, mk_bool, ListT
from pyvc.contract import Contract, P, Raises, Loop
from pyvc.values import SV, PathV, IterV, OpaqueV
from . import spec as S
from .c_containers import inv_dict, chref, USE_VIEWS, common_req

C = 'awesomeyaml/nodes/composed.py::'
D = 'awesomeyaml/nodes/dict.py::'
KEY = C + 'ComposedNode.ayns.filter_nodes'
Cond = z3.Function('FilterCond', sym.PathSort, sym.I, z3.BoolSort())
DM = ('$mlen', '$mkeyat', '$mpos', '$mval')
LM = ('$llen', '$litem')


def cond_spec(it, a, kw, n):
    path, node = a[0], a[1]
    if not isinstance(path, PathV):
        it.unsupported(n, 'predicate called with a non-path')
    return SV(mk_bool(Cond(path.s, r_of(it.sv(node, n).t))))


Own = z3.Function('OwnerOfChildDict', sym.I, sym.I)     # ghost: the node whose child view a dict object is


def owns(c, h, s):
    """every node of the subtree owns its child-view dict: a plain dict object that belongs to no other node (true of every tree the
    constructors build; after a type promotion the node that lent its dict is unreachable)"""
    x = z3.Int('!ox')
    return S.FA([x], z3.Implies(S.In(s, x), z3.And(Own(chref(h, x)) == x, h.cls(chref(h, x)) == c.cid('dict'), chref(h, x) > 0,
                                                  c.eng.isinstance_term(h.cls(x), 'ConfigNode'))), patterns=[chref(h, x)])


def is_child_dict_inside(h, s, r):
    return z3.And(S.In(s, Own(r)), chref(h, Own(r)) == r)


def stay(h, e, fields=('$cls', '_children', '_func')):
    r = z3.Int('!sr')
    return S.FA([r], z3.Implies(r > 0, z3.And([z3.Select(h.arr(f), r) == z3.Select(e.arr(f), r) for f in fields])))


def _grows(c):
    rm = c.a.get('removed')
    if not isinstance(rm, SV):
        return z3.BoolVal(True)
    q = z3.Const('!gq', sym.PathSort)
    return z3.Implies(z3.Not(is_none(rm.t)), z3.ForAll([q], z3.Implies(z3.Select(c.pre.get('$pset', r_of(rm.t)), q), z3.Select(c.post.get('$pset', r_of(rm.t)), q))))


def truthy(c, h, x):
    """bool(x) for a composed node x: non-empty storage; a function node: it has a target"""
    fn = c.eng.isinstance_term(h.cls(x), 'FunctionNode')
    is_list = c.eng.isinstance_term(h.cls(x), 'list')
    f = h.get('_func', x)
    return z3.If(fn, z3.If(is_ref(f), z3.BoolVal(True), sym.truthy_prim(f)), z3.If(is_list, h.l(x).len != 0, h.m(x).len != 0))


CondKey = z3.Function('FilterCondAtKey', Val, z3.BoolSort())   # ghost: verdict of the predicate for the child under key k of the receiver


def cond_key_def(pref, m0):
    """definition of CondKey (keeps sequence terms out of the loop invariants)"""
    k = z3.Const('!ck', Val)
    return S.FA([k], CondKey(k) == Cond(z3.Concat(pref, z3.Unit(k)), r_of(m0.get(k))), patterns=[CondKey(k)])


def keep(c, h_after, pref, m0, k):
    ch = r_of(m0.get(k))
    return z3.Or(CondKey(k), z3.And(S.is_composed(c.eng, h_after.cls(ch)), truthy(c, h_after, ch)))


def lpos_valid(h, lst, k):
    p = z3.Select(h.get('$lpos', lst), k)
    l = h.l(lst)
    return z3.And(0 <= p, p < l.len, l.get(p) == k)


def register(R):
    recv = lambda: P.node('self', ['ConfigDict', 'CallNode', 'BindNode'])

    def pref(c):
        p = c.a.get('prefix')
        return p.s if isinstance(p, PathV) else z3.Empty(sym.PathSort)

    def req(c):
        s = c.ref('self')
        m = S.children(c.pre, s)
        k = z3.Const('!rk', Val)
        return common_req(c, value=None) + [S.subwf_clause(c.eng, c.pre, s), ('Inv_views', inv_dict(c, c.pre, s)), ('nodes-own-their-child-dicts', owns(c, c.pre, s)),
                                            ('def:CondKey', cond_key_def(pref(c), m), {'ghost_def': True}),
                                            ('keys-are-names-or-indices', S.FA([k], z3.Implies(m.has(k), z3.Or(sym.is_int(k), sym.is_str(k))), patterns=[z3.Select(m.pos, k)]))]

    def inside(c, r):
        s = c.ref('self')
        return S.In(s, r)

    def mods(c):
        # child views and built-in storage of the nodes of the subtree; the set of removed paths
        out = [(f, (lambda r, c=c: z3.Or(inside(c, r), is_child_dict_inside(c.pre, c.ref('self'), r)))) for f in DM]
        out += [(f, (lambda r, c=c: inside(c, r))) for f in LM]
        rm = c.a.get('removed')
        if isinstance(rm, SV):
            out.append(('$pset', (lambda r, rm=rm: z3.And(z3.Not(is_none(rm.t)), r == r_of(rm.t)))))
        return out

    # ---- frame-level contract of the recursive call -------------------------------------------------------------
    R.add(Contract(KEY, [P.node('self', 'ComposedNode'), P.func('condition', cond_spec), P.path('prefix'), P.pset('removed', optional=True)],
                   name='pruned-subtree', assume_only=True, requires=lambda c: [S.subwf_clause(c.eng, c.pre, c.ref('self')), ('nodes-own-their-child-dicts', owns(c, c.pre, c.ref('self')))], modifies=mods,
                   result=lambda c, it: c.a['self'],
                   ensures=[('classes-and-structure-fields-of-nodes-stay', lambda c: stay(c.post, c.pre)),
                            ('removed-only-grows', lambda c: _grows(c))],
                   props=('C04',), opts={'callee': False},
                   note='the recursive call one level down (same function; the one-level step below is what is proved, induction over the finite tree lifts it): '
                        'returns its receiver, changes only child views / storage inside that subtree and the set of removed paths'))

    def ens(c):
        s = c.ref('self')
        m0, m1 = S.children(c.pre, s), S.children(c.post, s)
        k = z3.Const('!fk', Val)
        out = [('C04.returns-the-receiver', c.rt == c['self']),
               ('C17.views-agree', inv_dict(c, c.post, s)),
               ('C04.child-survives-iff-protected-or-something-below-it-survives',
                S.FA([k], m1.has(k) == z3.And(m0.has(k), keep(c, c.post, pref(c), m0, k)), patterns=[z3.Select(m1.pos, k)])),
               ('C04.surviving-children-are-the-same-objects', S.FA([k], z3.Implies(m1.has(k), m1.get(k) == m0.get(k)), patterns=[m1.get(k)]))]
        rm = c.a.get('removed')
        if isinstance(rm, SV):
            ps0, ps1 = c.pre.get('$pset', r_of(rm.t)), c.post.get('$pset', r_of(rm.t))
            q = z3.Const('!fq', sym.PathSort)
            out.append(('C04.every-removed-child-is-reported', z3.Implies(z3.Not(is_none(rm.t)), z3.And(
                S.FA([k], z3.Implies(z3.And(m0.has(k), z3.Not(m1.has(k))), z3.Select(ps1, z3.Concat(pref(c), z3.Unit(k)))), patterns=[z3.Select(m1.pos, k)]),
                z3.ForAll([q], z3.Implies(z3.Select(ps0, q), z3.Select(ps1, q)))))))
        return out

    def tl(L, name):
        return r_of(L.loc[name].t)

    def inv0(c, L):
        # scan: children of the receiver untouched so far; to_del holds exactly the keys among the first i that are not kept
        s = c.ref('self')
        m0 = S.children(L.entry_heap, s)
        h = L.heap
        td, trs = tl(L, 'to_del'), tl(L, 'to_re_set')
        tdl = h.l(td)
        k = z3.Const('!sk', Val)
        t = z3.Int('!st')
        x = z3.Int('!sx')
        pos0 = lambda kk: z3.Select(m0.pos, kk)
        kept_now = lambda kk: keep(c, h, pref(c), m0, kk)
        rm = c.a.get('removed')
        out = [('receiver-untouched', z3.And(S.children(h, s).eq(m0), h.m(s).eq(L.entry_heap.m(s)), chref(h, s) == chref(L.entry_heap, s))),
               ('nothing-to-re-set', h.l(trs).len == 0),
               ('to_del-len', z3.And(tdl.len >= 0, tdl.len <= L.i)),
               ('to_del-holds-scanned-keys', S.FA([t], z3.Implies(z3.And(0 <= t, t < tdl.len), z3.And(m0.has(tdl.get(t)), pos0(tdl.get(t)) < L.i)), patterns=[tdl.get(t)])),
               ('to_del-holds-only-keys-not-kept', S.FA([t], z3.Implies(z3.And(0 <= t, t < tdl.len), z3.Not(kept_now(tdl.get(t)))), patterns=[tdl.get(t)])),
               ('to_del-positions-recorded', S.FA([t], z3.Implies(z3.And(0 <= t, t < tdl.len), z3.Select(h.get('$lpos', td), tdl.get(t)) == t), patterns=[tdl.get(t)])),
               ('every-scanned-key-not-kept-is-in-to_del', S.FA([k], z3.Implies(z3.And(m0.has(k), pos0(k) < L.i, z3.Not(kept_now(k))), lpos_valid(h, td, k)),
                                                                patterns=[z3.Select(h.get('$lpos', td), k)])),
               ('unscanned-subtrees-untouched', S.FA([k, x], z3.Implies(z3.And(m0.has(k), pos0(k) >= L.i, S.In(r_of(m0.get(k)), x)),
                                                                        z3.And([z3.Select(h.arr(f), x) == z3.Select(L.entry_heap.arr(f), x) for f in LM] +
                                                                               [z3.Select(h.arr(f), chref(L.entry_heap, x)) == z3.Select(L.entry_heap.arr(f), chref(L.entry_heap, x)) for f in DM])),
                                                        patterns=[z3.MultiPattern(m0.get(k), S.Desc(r_of(m0.get(k)), x))])),
               ('structure-fields-stay', stay(h, L.entry_heap))]
        if isinstance(rm, SV):
            q = z3.Const('!sq', sym.PathSort)
            out.append(('removed-only-grows', z3.Implies(z3.Not(is_none(rm.t)), z3.ForAll([q], z3.Implies(z3.Select(L.entry_heap.get('$pset', r_of(rm.t)), q), z3.Select(h.get('$pset', r_of(rm.t)), q))))))
        return out

    def inv1(c, L):
        # deletion, last name first: the child view is the scanned view minus the last i entries of to_del; the lists are stable
        s = c.ref('self')
        e = L.entry_heap
        h = L.heap
        m0 = S.children(e, s)            # view when the deletion loop starts = view of the pre-state (scan left the receiver untouched)
        m = S.children(h, s)
        td = tl(L, 'to_del')
        tdl = e.l(td)
        k = z3.Const('!dk', Val)
        gone = lambda kk: z3.And(lpos_valid(e, td, kk), z3.Select(e.get('$lpos', td), kk) >= tdl.len - L.i)
        rm = c.a.get('removed')
        kk = z3.Const('!wk1', Val)
        out = [('views-agree', inv_dict(c, h, s)),
               ('children-dict-wellformed', z3.And(m.len >= 0, S.FA([kk], z3.And(z3.Select(m.pos, kk) >= -1, z3.Select(m.pos, kk) < m.len), patterns=[z3.Select(m.pos, kk)])),
                {'builtin_axiom': True}),
               ('to_del-stable', z3.And(h.l(td).eq(tdl), h.get('$lpos', td) == e.get('$lpos', td), h.l(tl(L, 'to_re_set')).len == 0)),
               ('view-is-scanned-view-minus-processed', S.FA([k], z3.And(m.has(k) == z3.And(m0.has(k), z3.Not(gone(k))), z3.Implies(m.has(k), m.get(k) == m0.get(k))),
                                                             patterns=[z3.Select(m.pos, k)])),
               ('below-untouched', stay(h, e))]
        if isinstance(rm, SV):
            q = z3.Const('!dq', sym.PathSort)
            ps0, ps1 = e.get('$pset', r_of(rm.t)), h.get('$pset', r_of(rm.t))
            out.append(('removed-reported-so-far', z3.Implies(z3.Not(is_none(rm.t)), z3.And(
                S.FA([k], z3.Implies(gone(k), z3.Select(ps1, z3.Concat(pref(c), z3.Unit(k)))), patterns=[z3.Select(e.get('$lpos', td), k)]),
                z3.ForAll([q], z3.Implies(z3.Select(ps0, q), z3.Select(ps1, q)))))))
        return out

    def mod_at0(c, L):
        return [(f, [tl(L, 'to_del')]) for f in LM]

    def mod_where0(c, L):
        s = c.ref('self')
        x = z3.Int('!wx')
        e = L.entry_heap
        below = lambda r: S.Desc(s, r)
        out = [(f, (lambda r, e=e: z3.Or(S.Desc(s, r), z3.And(S.Desc(s, Own(r)), chref(e, Own(r)) == r)))) for f in DM]
        out += [(f, below) for f in LM]
        rm = c.a.get('removed')
        if isinstance(rm, SV):
            out.append(('$pset', (lambda r, rm=rm: z3.And(z3.Not(is_none(rm.t)), r == r_of(rm.t)))))
        return out

    def mod_at1(c, L):
        s = c.ref('self')
        out = [(f, [s, chref(L.entry_heap, s)]) for f in DM]
        rm = c.a.get('removed')
        if isinstance(rm, SV):
            out.append(('$pset', [r_of(rm.t)]))
        return out

    def inv2(c, L):
        return [('nothing-to-re-set', L.heap.l(tl(L, 'to_re_set')).len == 0)]

    def replay_direct(repo, obl_name):
        # the one-level clause on the real function: sample trees, predicates given as sets of protected paths
        import importlib, itertools, copy
        ay = importlib.import_module('awesomeyaml')
        from awesomeyaml.nodes.composed import ComposedNode
        docs = ["{a: {b: {q: 3, x: 3}, c: {x: {b: 1}, d: 2}}, e: {q: {b: 0}}, f: 2}",
                "{a: {b: 1}, g: !call:builtins.dict {x: 1}, l: [1, [2]], m: {}}"]
        for text in docs:
            def fresh():
                b = ay.Builder()
                b.add_source(text, raw_yaml=True)
                return b.stages[0]
            root0 = fresh()
            leaves = [tuple(str(x) if isinstance(x, str) else x for x in p) for p, n in root0.ayns.nodes_with_paths() if not isinstance(n, ComposedNode)]
            for prot in [set()] + [set([l]) for l in leaves] + [set(leaves[:2]), set(leaves)]:
                root = fresh()
                pref = ['w']

                def expect(node, path):
                    out = {}
                    for k, ch in node.__dict__['_children'].items():
                        kk = str(k) if isinstance(k, str) else k
                        sub = expect(ch, path + (kk,)) if isinstance(ch, ComposedNode) else None
                        survives = (path + (kk,)) in prot or (isinstance(ch, ComposedNode) and (bool(sub) if not hasattr(ch, '_func') else bool(ch._func)))
                        if survives:
                            out[kk] = sub if sub is not None else 'leaf'
                    if isinstance(node, list):
                        out = {i: v for i, (k_, v) in enumerate(sorted(out.items()))}      # the survivors of a list node are renumbered
                    return out
                exp = expect(root, ())
                removed = set()
                res = root.ayns.filter_nodes(lambda p, n: tuple(str(x) if isinstance(x, str) else x for x in p[len(pref):]) in prot, prefix=list(pref), removed=removed)

                def shape(node):
                    return {(str(k) if isinstance(k, str) else k): (shape(ch) if isinstance(ch, ComposedNode) else 'leaf') for k, ch in node.__dict__['_children'].items()}
                got = shape(root)
                inp = {'document': text, 'protected': sorted(map(list, prot)), 'prefix': pref}
                if res is not root or got != exp:
                    return {'verdict': 'violates', 'input': inp, 'detail': f'filter_nodes on {text!r} protecting {sorted(prot)!r}: left {got!r}, expected {exp!r}'}
                if isinstance(root, dict) and list(dict.keys(root)) != list(root.__dict__['_children'].keys()):
                    return {'verdict': 'violates', 'input': inp, 'detail': 'built-in storage and child view disagree after pruning'}
        return {'verdict': 'holds', 'detail': 'pruned trees equal the reference on all samples', 'input': None}

    use = dict(USE_VIEWS)
    use[KEY] = 'pruned-subtree'
    R.add(Contract(KEY, [recv(), P.func('condition', cond_spec), P.path('prefix'), P.pset('removed', optional=True)], name='mapping-one-level',
                   requires=req, modifies=mods, ensures=[('filter', ens)], result=P.node('result', 'ComposedNode'),
                   loops={0: Loop(inv0, mod_locals=['name', 'child', 'child_path', 'keep', 'possibly_new_child'], mod_at=mod_at0, mod_where=mod_where0),
                          1: Loop(inv1, mod_locals=['name'], mod_at=mod_at1),
                          2: Loop(inv2, mod_locals=['name', 'child'])},
                   props=('C04', 'C15', 'C05', 'C02', 'C14'), opts={'use': use, 'no_search': True, 'verify_only': True, 'assume_children_are_objects': True, 'shards': 8,
                                             'replay_direct': replay_direct, 'no_model_replay': True},
                   note='mapping receivers (ConfigDict and the function nodes); list receivers are covered by the bounded stand-in only'))


def _reg_all(R):
    register(R)
