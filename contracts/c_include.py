"""IncludeNode.ayns.on_preprocess_impl (C06): every name of an !include is looked up in the lookup directories in order and added
from the first directory where the file exists; the build fails - naming the files - iff some name exists in none of them.

The file system is an uninterpreted predicate: Builder.add_source(file) (assumed) raises FileNotFoundError iff FileExists(file) is
false; os.path.join / normpath are uninterpreted functions of their arguments; get_lookup_dirs returns the same list of
directories on every call (ghost LookupDir / LookupLen)."""
import z3
from pyvc import sym
from pyvc.sym import Val, is_none, is_bool, is_ref, is_str, b_of, r_of, ListT
from pyvc.contract import Contract, P, Raises, Loop
from pyvc.values import SV, PathV, IterV, OpaqueV
from . import spec as S

I_ = 'awesomeyaml/nodes/include.py::'
B_ = 'awesomeyaml/builder.py::'
N_ = 'awesomeyaml/nodes/node.py::'
FileExists = z3.Function('FileExists', Val, z3.BoolSort())
Join = z3.Function('PathJoin', Val, Val, Val)
Norm = z3.Function('PathNorm', Val, Val)
LookupLen = z3.Function('LookupLen', sym.I, Val, sym.I)          # (builder, reference file) -> number of lookup directories
LookupDir = z3.Function('LookupDir', sym.I, Val, sym.I, Val)     # (builder, reference file, position) -> directory


def register(R):
    R.opaque['os.path.join'] = lambda it, a, kw, n, fr: SV(Join(it.sv(a[0], n).t, it.sv(a[1], n).t)) if len(a) == 2 else SV(Val.str(it.run.fresh('os_path_join', z3.StringSort())))
    R.opaque['os.path.normpath'] = lambda it, a, kw, n, fr: SV(Norm(it.sv(a[0], n).t))

    def file_of(d, name):
        return Norm(Join(d, name))

    sub = lambda n='self': P.node(n, 'SubBuilder', exact=True)
    R.add(Contract(B_ + 'Builder.get_subbuilder', [P.node('self', 'Builder'), P.path('requester')], name='abstract', assume_only=True, pure=True,
                   result=P.node('result', 'SubBuilder', exact=True, fresh=True), props=('C06',), opts={'callee': False},
                   note='a new sub-builder for the stages of an include'))

    def dirs_result(c, it):
        r = it.run.alloc('list')
        i = z3.Int('!di')
        b, ref = c.ref('self'), c['ref_point']
        it.heap.put_l(r, ListT(LookupLen(b, ref), z3.Lambda([i], LookupDir(b, ref, i))))
        it.run.assume(LookupLen(b, ref) >= 0)
        return SV(sym.mk_ref(r), hint=frozenset(['list']))
    R.add(Contract(B_ + 'SubBuilder.get_lookup_dirs', [sub(), P.val('ref_point', 'any')], name='abstract', assume_only=True, pure=True, result=dirs_result,
                   props=('C06',), opts={'callee': False}, note='the lookup directories: the same sequence on every call for the same builder and reference file'))
    R.add(Contract(B_ + 'Builder.add_source', [P.node('self', 'Builder'), P.val('source', 'any')], name='file', assume_only=True,
                   effects=[('C06+C07.add-source',)], modifies=lambda c: [('stages', [c.ref('self')])] + [(f, (lambda r: r < -1000000)) for f in ('$llen', '$litem')],
                   raises=[Raises('FileNotFoundError', when=lambda c: z3.Not(FileExists(c['source'])), exact=True)], props=('C06',),
                   opts={'callee': False, 'bind_partial': True}, note='reading a file: FileNotFoundError iff the file does not exist (the file system as an uninterpreted predicate); touches only the lists of the sub-builder (objects created by get_subbuilder)'))
    R.add(Contract(B_ + 'SubBuilder.build', [sub()], name='abstract', assume_only=True, modifies=lambda c: [('stages', 'all')] + [(f, (lambda r: r < -1000000)) for f in ('$llen', '$litem')],
                   result=P.node('result', 'StreamNode', exact=True, fresh=True), raises=[Raises('Exception')], props=('C06',), opts={'callee': False},
                   note='preprocess the included stages (recursively) into a stream node'))
    R.add(Contract(N_ + 'ConfigNode.ayns.on_preprocess', [P.node('self', 'ConfigNode'), P.path('path'), P.val('builder', 'any')], name='abstract', assume_only=True,
                   modifies=lambda c: [(f, 'all') for f in ('$llen', '$litem', 'stages')], result=P.node('result', 'ConfigNode', maybe_fresh=True), raises=[Raises('Exception')],
                   props=('C06',), opts={'callee': False}, note='preprocessing hook of the stream node'))

    def names(c, h):
        return h.l(r_of(h.get('filenames', c.ref('self'))))

    def found_nowhere(c, name):
        t = z3.Int('!ft')
        b = c.x['subbuilder']
        ref = c.pre.get('_source_file', c.ref('self'))
        return z3.ForAll([t], z3.Implies(z3.And(0 <= t, t < LookupLen(b, ref)), z3.Not(FileExists(file_of(LookupDir(b, ref, t), name)))))

    def some_missing(c):
        j = z3.Int('!fj')
        nl = names(c, c.pre)
        return z3.Exists([j], z3.And(0 <= j, j < nl.len, found_nowhere(c, nl.get(j))))

    def outer(c, L):
        c.x['subbuilder'] = r_of(L.loc['subbuilder'].t)
        ml = L.heap.l(r_of(L.loc['missing'].t))
        nl = names(c, L.entry_heap)
        j = z3.Int('!oj')
        return [('missing-iff-a-name-was-found-nowhere', (ml.len > 0) == z3.Exists([j], z3.And(0 <= j, j < L.i, found_nowhere(c, nl.get(j))))),
                ('len', ml.len >= 0),
                ('names-stable', z3.And(names(c, L.heap).eq(nl), L.heap.get('filenames', c.ref('self')) == L.entry_heap.get('filenames', c.ref('self')),
                                        L.heap.get('_source_file', c.ref('self')) == L.entry_heap.get('_source_file', c.ref('self'))))]

    def inner(c, L):
        b = r_of(L.loc['subbuilder'].t)
        ref = L.entry_heap.get('_source_file', c.ref('self'))
        name = L.loc['filename'].t
        t = z3.Int('!it')
        return [('not-found-so-far', z3.And(L.loc['found'].t == sym.FALSE,
                                            z3.ForAll([t], z3.Implies(z3.And(0 <= t, t < L.i), z3.Not(FileExists(file_of(LookupDir(b, ref, t), name))))))),
                ('missing-stable', L.heap.l(r_of(L.loc['missing'].t)).eq(L.entry_heap.l(r_of(L.loc['missing'].t)))),
                ('names-stable', z3.And(names(c, L.heap).eq(names(c, L.entry_heap)), L.heap.get('filenames', c.ref('self')) == L.entry_heap.get('filenames', c.ref('self')),
                                        L.heap.get('_source_file', c.ref('self')) == L.entry_heap.get('_source_file', c.ref('self'))))]

    def gate_add(sc, kw):
        # C07 "read from a source added with safe=False, or INCLUDED BY SUCH CONTENT": the included file is parsed with the EFFECTIVE safety
        # of the include node (own mark, inherited mark and the safety of the source it was written in), as a file, not as raw text
        k = kw.get('kwargs', {})
        sf = k.get('safe')
        if not isinstance(sf, SV):
            return z3.BoolVal(False)
        return z3.And(is_bool(sf.t), b_of(sf.t) == S.safe(kw['heap'], sc.ref('self')))

    def req(c):
        s = c.ref('self')
        fl = c.pre.get('filenames', s)
        return [('filenames-is-a-list', z3.And(is_ref(fl), r_of(fl) > 0, c.pre.cls(r_of(fl)) == c.cid('list'), c.pre.l(r_of(fl)).len >= 0)),
                ('valid', S.valid_flags(c.pre, s))]

    def replay_direct(repo, obl_name):
        # the contract on the real function and the real file system: a scratch directory with some of the named files present
        import importlib, os, shutil, itertools
        ay = importlib.import_module('awesomeyaml')
        base = os.path.join(os.path.dirname(os.path.dirname(os.path.abspath(__file__))), '.work', 'replay_include')
        shutil.rmtree(base, ignore_errors=True)
        os.makedirs(os.path.join(base, 'sub'))
        try:
            for nm in ('a.yaml', 'b.yaml'):
                with open(os.path.join(base, nm), 'w') as f:
                    f.write(f'{nm[0]}: 1\n')
            with open(os.path.join(base, 'sub', 'c.yaml'), 'w') as f:
                f.write('c: 1\n')
            present = {'a.yaml', 'b.yaml', 'sub/c.yaml'}
            if 'add-source' in (obl_name or ''):
                # the safety handed to the sub-builder: a file included by a source added with safe=False must not reach a call
                with open(os.path.join(base, 'dyn.yaml'), 'w') as f:
                    f.write('f: !call:builtins.dict {x: 1}\n')
                main = os.path.join(base, 'main_unsafe.yaml')
                with open(main, 'w') as f:
                    f.write('k: !include dyn.yaml\n')
                b = ay.Builder()
                b.add_source(main, safe=False)
                try:
                    cfg = ay.Config(b.build())
                    return {'verdict': 'violates', 'input': {'source': 'k: !include dyn.yaml (added with safe=False)', 'dyn.yaml': 'f: !call:builtins.dict {x: 1}'},
                            'detail': f'a call node in a file included by a source added with safe=False was executed: {dict(cfg)!r}'}
                except Exception as e:
                    chain, cur = [], e
                    while cur is not None and len(chain) < 6:
                        chain.append(type(cur).__name__)
                        cur = cur.__cause__ or cur.__context__
                    if 'UnsafeError' not in chain:
                        return {'verdict': 'inconclusive', 'detail': f'build failed with {chain}', 'input': None}
                return {'verdict': 'holds', 'detail': 'a call included by unsafe content is refused', 'input': None}
            for names_ in itertools.chain(itertools.permutations(['a.yaml', 'nowhere.yaml', 'b.yaml'], 2), itertools.permutations(['a.yaml', 'sub/c.yaml', 'gone.yaml'], 3), [['a.yaml']]):
                main = os.path.join(base, 'main.yaml')
                with open(main, 'w') as f:
                    f.write('x: 0\n---\n!include [' + ', '.join(names_) + ']\n')
                expect_fail = any(n not in present for n in names_)
                try:
                    cfg = ay.Config.build(main)
                    failed = None
                except Exception as e:
                    failed = e
                fnf = failed is not None and (isinstance(failed, FileNotFoundError) or isinstance(getattr(failed, '__cause__', None), FileNotFoundError) or 'missing' in str(failed))
                if expect_fail != (failed is not None):
                    return {'verdict': 'violates', 'input': {'include': list(names_), 'files_present': sorted(present)},
                            'detail': f'!include {list(names_)!r} with files {sorted(present)!r} present: build {"failed with " + type(failed).__name__ if failed is not None else "succeeded"}, expected {"a failure naming the missing file" if expect_fail else "success"}'}
            return {'verdict': 'holds', 'detail': 'builds fail exactly when a named file exists in no lookup directory', 'input': None}
        finally:
            shutil.rmtree(base, ignore_errors=True)

    R.add(Contract(I_ + 'IncludeNode.ayns.on_preprocess_impl', [P.node('self', 'IncludeNode', exact=True), P.path('path'), P.node('builder', 'Builder', exact=True)],
                   requires=req, modifies=lambda c: [(f, 'all') for f in ('$llen', '$litem', 'stages')],
                   raises=[Raises('FileNotFoundError', name='C06.a-file-found-in-no-lookup-directory-fails-the-build', when=lambda c: _some_missing_at_raise(c, some_missing)),
                           Raises('Exception')],
                   ensures=[('C06.returns-only-if-every-name-was-found-somewhere', lambda c: _all_found(c, some_missing))],
                   result=P.node('result', 'ConfigNode', maybe_fresh=True),
                   loops={0: Loop(outer, mod_locals=['filename', 'found', 'lookup_dir', 'file'], mod_fields=['stages'],
                                  mod_at=lambda c, L: [(f, [r_of(L.loc['missing'].t)]) for f in ('$llen', '$litem')],
                                  mod_where=lambda c, L: [(f, (lambda r: r < -1000000)) for f in ('$llen', '$litem')]),
                          1: Loop(inner, mod_locals=['found', 'lookup_dir', 'file'], mod_fields=['stages'],
                                  mod_where=lambda c, L: [(f, (lambda r: r < -1000000)) for f in ('$llen', '$litem')])},
                   props=('C06', 'C07'),
                   opts={'use': {B_ + 'Builder.get_subbuilder': 'abstract', B_ + 'SubBuilder.get_lookup_dirs': 'abstract', B_ + 'Builder.add_source': 'file', B_ + 'SubBuilder.add_source': 'file',
                                 B_ + 'SubBuilder.build': 'abstract', N_ + 'ConfigNode.ayns.on_preprocess': 'abstract'},
                         'gates': {'C06+C07.add-source': gate_add}, 'no_search': True, 'no_frame': True, 'gates_on_raise': True, 'skip_kinds': ('safety',),
                         'replay_direct': replay_direct, 'no_model_replay': True, 'shards': 4},
                   note='lookup of included files; the file system is an uninterpreted predicate'))


def _sub_of(c):
    return c.x.get('subbuilder')


def _some_missing_at_raise(c, some_missing):
    if _sub_of(c) is None:
        return z3.BoolVal(False)
    return some_missing(c)


def _all_found(c, some_missing):
    if _sub_of(c) is None:
        return z3.BoolVal(False)
    return z3.Not(some_missing(c))


Dirname = z3.Function('PathDirname', Val, Val)
Cwd = z3.Const('WorkingDirectory', Val)


def register_lookup_order(R):
    """Builder.get_lookup_dirs (C06): 'included names resolve relative to the including file first and then the working directory' - the
    generator yields the directory of the reference file (when there is one) BEFORE the working directory, and nothing else.
    os.path.dirname is an uninterpreted function, os.getcwd() an uninterpreted constant (the working directory does not change
    while the generator runs)."""
    R.opaque['os.path.dirname'] = lambda it, a, kw, n, fr: SV(Dirname(it.sv(a[0], n).t))
    R.opaque['os.getcwd'] = lambda it, a, kw, n, fr: SV(Cwd)

    def ens(c):
        y = c.post.l(c.x['yields'])
        ref = c['ref_point']
        return [('C06.directory-of-the-including-file-first-then-the-working-directory',
                 z3.If(is_none(ref), z3.And(y.len == 1, y.get(0) == Cwd), z3.And(y.len == 2, y.get(0) == Dirname(ref), y.get(1) == Cwd)))]

    R.add(Contract(B_ + 'Builder.get_lookup_dirs', [P.node('self', 'Builder'), P.val('ref_point', 'any')], name='order', pure=True,
                   ensures=[('lookup', ens)], props=('C06',), opts={'verify_only': True, 'no_search': True, 'no_model_replay': True},
                   note='generator; the yielded directories are recorded in a ghost list. SubBuilder.get_lookup_dirs hands on the parent builder\'s generator '
                        '(one line, not under contract); IncludeNode.on_preprocess_impl is proved against an abstract, order-preserving view of that list'))


def _reg_all(R):
    register(R)
    register_lookup_order(R)
