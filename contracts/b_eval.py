"""Bounded stand-ins for the evaluation phase: whole builds under a watchdog (reference cycles), exactly-once evaluation,
placeholders.  Labelled bounded."""
import json
import os
import random
import subprocess
import sys
from pyvc.tasks import Bounded
from . import b_docs as G
from .b_merge import load, Runner, build, to_plain, n_cases

WATCHDOG_S = 8


def build_in_subprocess(repo, texts, timeout=WATCHDOG_S, extra=''):
    """('ok', repr) | ('err', class) | ('hang', None) | ('crash', code): the build runs in a child process under a watchdog"""
    code = ("import sys, json; sys.path.insert(0, %r); import awesomeyaml\n" % os.path.abspath(repo) + extra +
            "docs = json.loads(sys.argv[1])\n"
            "try:\n    c = awesomeyaml.Config.build(*docs, raw_yaml=True)\n    print('OK', json.dumps(c, default=repr))\n"
            "except Exception as e:\n    print('ERR', type(e).__name__)\n")
    try:
        p = subprocess.run(['/venv/bin/python', '-c', code, json.dumps(texts)], capture_output=True, text=True, timeout=timeout)
    except subprocess.TimeoutExpired:
        return ('hang', None)
    out = p.stdout.strip().split('\n')[-1] if p.stdout.strip() else ''
    if out.startswith('OK'):
        return ('ok', out[3:])
    if out.startswith('ERR'):
        return ('err', out[4:])
    return ('crash', p.returncode)


def run_c09(repo, tier, seed, only=None):
    ay = load(repo)
    rng = random.Random(9000 + seed)
    R = Runner('C09')
    # reference graphs over a few paths: chains, fan-in, forward/backward, dangling, self reference, cycles
    fixed = [['{a: !xref b, b: !xref a}'], ['{a: !xref a}'], ['{a: !xref b, b: !xref c, c: !xref a, d: 1}'], ['{a: !xref b, b: !xref c, c: [1, 2]}'],
             ['{a: !xref zz}'], ['{l: [1, !xref "l[0]"], m: {k: !xref l}}']]
    cases = list(fixed)
    names = ['a', 'b', 'c', 'd']
    for _ in range(n_cases(tier, 40, 400)):
        n = rng.randint(2, 4)
        items = []
        for i in range(n):
            k = rng.random()
            if k < 0.6:
                items.append((names[i], ('leaf', rng.choice(names[:n] + ['zz']), 'xref')))
            elif k < 0.8:
                items.append((names[i], G.sq([G.leaf(1), G.leaf(2)])))
            else:
                items.append((names[i], G.leaf(rng.randint(0, 5))))
        cases.append([G.render(G.mp(items)).replace("!xref '", "!xref '")])
    for texts in cases:
        res = build_in_subprocess(repo, texts)
        R.case(tuple(texts), {'docs': texts, 'result': res[0]})
        if res[0] in ('hang', 'crash'):
            R.fail('bounded:C09.evaluation-of-any-reference-graph-terminates-with-a-value-or-an-error',
                   f'docs={texts}: build {"did not return within %d s" % WATCHDOG_S if res[0] == "hang" else "crashed: %r" % (res[1],)}', {'family': 'c09', 'docs': texts})
            continue
        # identity: every reference aliases its target
        if res[0] == 'ok':
            try:
                cfg = ay.Config.build(*texts, raw_yaml=True)
                import yaml
                src = yaml.load(texts[0].replace('!xref', ''), Loader=yaml.SafeLoader)
                for k, v in src.items():
                    if isinstance(v, str) and v in src and not isinstance(src[v], str):
                        if cfg[k] is not cfg[v]:
                            R.fail('bounded:C09.reference-evaluates-to-the-very-object-of-its-target', f'docs={texts}: cfg[{k!r}] is not cfg[{v!r}]', {'family': 'c09', 'docs': texts})
            except Exception as e:
                R.fail('bounded:C09.checker', f'{type(e).__name__}: {e}', {'family': 'c09', 'docs': texts})
    return R.result()


def register(R):
    R.tasks.append(Bounded('bounded:C09-reference-graphs-under-watchdog', ('C09',), run_c09,
                           'configs of <= 4 top-level entries, every reference graph shape over them; 8 s watchdog per build; quick 46 / thorough 406 graphs',
                           stands_in_for='XRefNode.on_evaluate_impl loop termination (replayable witness for the termination obligation), EvalContext.get_node path parsing'))
