"""Bounded stand-ins for the evaluation phase: whole builds under a watchdog (reference cycles), exactly-once evaluation,
placeholders.  Labelled bounded."""
import json
import os
import random
import subprocess
import sys
from pyvc.tasks import Bounded
from . import b_docs as G
from .b_merge import load, Runner, build, to_plain, n_cases

WATCHDOG_S = 20        # generous: a verdict must not flip when all cores are busy (a small build takes well under a second)


def build_in_subprocess(repo, texts, timeout=WATCHDOG_S, extra=''):
    """('ok', repr) | ('err', class) | ('hang', None) | ('crash', code): the build runs in a child process under a watchdog"""
    code = ("import sys, json; sys.path.insert(0, %r); import awesomeyaml\n" % os.path.abspath(repo) + extra +
            "docs = json.loads(sys.argv[1])\n"
            "try:\n    c = awesomeyaml.Config.build(*docs, raw_yaml=True)\n    print('OK', json.dumps(c, default=repr))\n"
            "except Exception as e:\n    print('ERR', type(e).__name__)\n")
    try:
        p = subprocess.run(['/venv/bin/python', '-c', code, json.dumps(texts)], capture_output=True, text=True, timeout=timeout)
    except subprocess.TimeoutExpired:
        return ('hang', None)
    out = p.stdout.strip().split('\n')[-1] if p.stdout.strip() else ''
    if out.startswith('OK'):
        return ('ok', out[3:])
    if out.startswith('ERR'):
        return ('err', out[4:])
    return ('crash', p.returncode)


def run_c09(repo, tier, seed, only=None):
    ay = load(repo)
    rng = random.Random(9000 + seed)
    R = Runner('C09')
    # reference graphs over a few paths: chains, fan-in, forward/backward, dangling, self reference, cycles
    fixed = [['{a: !xref b, b: !xref a}'], ['{a: !xref a}'], ['{a: !xref b, b: !xref c, c: !xref a, d: 1}'], ['{a: !xref b, b: !xref c, c: [1, 2]}'],
             ['{a: !xref zz}'], ['{l: [1, !xref "l[0]"], m: {k: !xref l}}']]
    cases = list(fixed)
    # nested targets, written before and after the reference, in the same mapping, in another document, in lists and call arguments:
    # checked for identity below
    nested = [(['{r: !xref box.inner, box: {inner: [1]}}'], ['r'], ['box', 'inner']), (['{box: {inner: [1]}, r: !xref box.inner}'], ['r'], ['box', 'inner']),
              (['{r: !xref "elems[1]", elems: [0, [1]]}'], ['r'], ['elems', 1]), (['{r: !xref a.b.c, a: {b: {c: [1]}}}'], ['r'], ['a', 'b', 'c']),
              (['{r: !xref s, s: !xref box.inner, box: {inner: [1]}}'], ['r'], ['box', 'inner']), (['{box: {r: !xref box.inner, inner: [1]}}'], ['box', 'r'], ['box', 'inner']),
              (['{r: !xref box.inner}', '{box: {inner: [1]}}'], ['r'], ['box', 'inner']), (['{l: [!xref box.inner], box: {inner: [1]}}'], ['l', 0], ['box', 'inner']),
              (['{r: !ref box.inner, box: {inner: [1]}}'], ['r'], ['box', 'inner']), (['{r: !xref "d[0].x", d: [{x: [1]}]}'], ['r'], ['d', 0, 'x'])]
    for texts, hp, tp in nested:
        R.case(('nested',) + tuple(texts), {'docs': texts})
        try:
            cfg = ay.Config.build(*texts, raw_yaml=True)
            holder, tgt = cfg, cfg
            for comp in hp:
                holder = holder[comp]
            for comp in tp:
                tgt = tgt[comp]
            ok, why = holder is tgt, f'the reference holds {holder!r}, the target is {tgt!r} (not the same object)'
        except Exception as e:
            ok, why = False, f'build failed with {type(e).__name__}: {e}'[:300]
        if not ok:
            R.fail('bounded:C09.reference-is-the-object-at-the-referenced-path-wherever-the-target-is-defined', f'docs={texts}: {why}', {'family': 'c09', 'docs': texts})
    names = ['a', 'b', 'c', 'd']
    for _ in range(n_cases(tier, 40, 400)):
        n = rng.randint(2, 4)
        items = []
        for i in range(n):
            k = rng.random()
            if k < 0.6:
                items.append((names[i], ('leaf', rng.choice(names[:n] + ['zz']), 'xref')))
            elif k < 0.8:
                items.append((names[i], G.sq([G.leaf(1), G.leaf(2)])))
            else:
                items.append((names[i], G.leaf(rng.randint(0, 5))))
        cases.append([G.render(G.mp(items)).replace("!xref '", "!xref '")])
    for texts in cases:
        res = build_in_subprocess(repo, texts)
        R.case(tuple(texts), {'docs': texts, 'result': res[0]})
        if res[0] in ('hang', 'crash'):
            R.fail('bounded:C09.evaluation-of-any-reference-graph-terminates-with-a-value-or-an-error',
                   f'docs={texts}: build {"did not return within %d s" % WATCHDOG_S if res[0] == "hang" else "crashed: %r" % (res[1],)}', {'family': 'c09', 'docs': texts})
            continue
        # identity: every reference aliases its target
        if res[0] == 'ok':
            try:
                cfg = ay.Config.build(*texts, raw_yaml=True)
                import yaml
                src = yaml.load(texts[0].replace('!xref', ''), Loader=yaml.SafeLoader)
                for k, v in src.items():
                    if isinstance(v, str) and v in src and not isinstance(src[v], str):
                        if cfg[k] is not cfg[v]:
                            R.fail('bounded:C09.reference-evaluates-to-the-very-object-of-its-target', f'docs={texts}: cfg[{k!r}] is not cfg[{v!r}]', {'family': 'c09', 'docs': texts})
            except Exception as e:
                R.fail('bounded:C09.checker', f'{type(e).__name__}: {e}', {'family': 'c09', 'docs': texts})
    return R.result()


def register(R):
    R.tasks.append(Bounded('bounded:C09-reference-graphs-under-watchdog', ('C09',), run_c09,
                           'configs of <= 4 top-level entries, every reference graph shape over them; 8 s watchdog per build; quick 46 / thorough 406 graphs',
                           stands_in_for='XRefNode.on_evaluate_impl loop termination (replayable witness for the termination obligation), EvalContext.get_node path parsing'))


# ------------------------------------------------------------------------------------------------ C16
def run_c16(repo, tier, seed, only=None):
    import copy as _copy
    ay = load(repo)
    rng = random.Random(16000 + seed)
    R = Runner('C16')
    # recorded finding (KNOWN_FINDINGS.txt), re-confirmed on every run
    kf = ['{l: [[1], [2], [3]]}', '{l: !merge {0: !append [9]}}']
    got = build(ay, kf)
    R.cases += 1
    if got != ('ok', {'l': [[1, 9], [2], [3]]}):
        R.fail('bounded:C16.known:append-to-an-element-of-a-list', f'docs={kf}: expected l: [[1, 9], [2], [3]], got {got!r}', {'family': 'c16', 'docs': kf})
    # key names that are not plain identifiers (a path handed on as TEXT would be read differently), targets at depth 1-3, with a
    # sibling whose own path spells the same text
    for key in ("'my-list'", "'v1.2'", "'my opts'", "'x[0]'"):
        k = key.strip("'")
        for pre in ([], ['w'], ['w', 'v']):
            def nest(inner):
                for p in reversed(pre):
                    inner = '{%s: %s}' % (p, inner)
                return inner

            def nestv(v):
                for p in reversed(pre):
                    v = {p: v}
                return v
            for op, new, want in (('!append 3', None, [1, 2, 3]), ('!extend [3, 4]', None, [1, 2, 3, 4])):
                texts = [nest('{%s: [1, 2], other: 5}' % key), nest('{%s: %s}' % (key, op))]
                got = build(ay, texts)
                R.case(tuple(texts), {'docs': texts})
                if got != ('ok', nestv({k: want, 'other': 5})):
                    R.fail('bounded:C16.append-extend-prev-move-and-grow-without-loss', f'docs={texts}: expected {nestv({k: want, "other": 5})!r}, got {got!r}'[:600], {'family': 'c16', 'docs': texts})
    texts = ["{r: {'a.b': [1], a: {b: [5]}}}", "{r: {'a.b': !append [2]}}"]
    got = build(ay, texts)
    R.case(tuple(texts), {'docs': texts})
    if got != ('ok', {'r': {'a.b': [1, 2], 'a': {'b': [5]}}}):
        R.fail('bounded:C16.append-extend-prev-move-and-grow-without-loss', f"docs={texts}: expected r: {{'a.b': [1, 2], a: {{b: [5]}}}}, got {got!r}"[:600], {'family': 'c16', 'docs': texts})
    for _ in range(n_cases(tier, 250, 4000)):
        g = G.Gen(rng, tags=(), leaves=[0, 1, 2, 'v'])
        base = g.map(3, top=True)
        bp = G.plain(base)
        # candidate target paths: through mappings only (a path through a list index: see the recorded finding)
        paths = []

        def walk(d, pre):
            if isinstance(d, dict):
                for k, v in d.items():
                    paths.append(pre + (k,))
                    walk(v, pre + (k,))
        walk(bp, ())
        op = rng.choice(['append', 'extend', 'prev'])
        tgt = rng.choice(paths) if paths and rng.random() < 0.8 else (rng.choice(G.KEYS), 'zz')
        items = [rng.choice([5, 6, 'w']) for _ in range(rng.randint(0, 2))]
        exp = _copy.deepcopy(bp)

        def get(d, p):
            for x in p:
                if not isinstance(d, dict) or x not in d:
                    return KeyError
                d = d[x]
            return d
        cur = get(bp, tgt)
        if op in ('append', 'extend'):
            node = G.sq([G.leaf(x) for x in items], op)
            doc = node
            for k in reversed(tgt):
                doc = G.wrap(doc, k)
            texts = [G.render(base), G.render(doc)]
            if isinstance(cur, list):
                new = cur + items
            elif op == 'extend':
                new = list(items)
            else:
                new = None
            if new is None:
                expected = ('err', 'PremergeError')
            else:
                # the operator's result replaces/creates the value at the path; parents are created like any new key
                d = exp
                ok = True
                for x in tgt[:-1]:
                    if x in d and isinstance(d[x], list):
                        ok = False      # a mapping merged onto a list addresses indices (C02): not this family
                        break
                    if x not in d or not isinstance(d[x], dict):
                        d[x] = {}
                    d = d[x]
                if not ok:
                    continue
                d[tgt[-1]] = new
                expected = ('ok', exp)
        else:
            q = rng.choice(['zq', rng.choice(G.KEYS)])
            texts = [G.render(base), '{%s: !prev %s}' % (q, '.'.join(str(x) for x in tgt))]
            if cur is KeyError or q == tgt[0]:
                expected = None if q == tgt[0] else ('err', 'PremergeError')
            else:
                d = exp
                for x in tgt[:-1]:
                    d = d[x]
                del d[tgt[-1]]
                if q in exp and isinstance(exp[q], (dict, list)):
                    expected = None      # the moved subtree merges with an existing container: covered by the merge oracles
                else:
                    exp[q] = cur
                    expected = ('ok', exp)
        if expected is None:
            continue
        got = build(ay, texts)
        R.case(tuple(texts), {'docs': texts, 'expected': repr(expected)[:200]})
        from .b_merge import unordered_eq
        ok = got[0] == expected[0] and (got[0] == 'err' and got[1] == expected[1] or got[0] == 'ok' and unordered_eq(got[1], expected[1]))
        if not ok:
            R.fail('bounded:C16.append-extend-prev-move-and-grow-without-loss', f'docs={texts} expected={expected!r} got={got!r}'[:700], {'family': 'c16', 'docs': texts})
    return R.result()


def register2(R):
    R.tasks.append(Bounded('bounded:C16-premerge-operators', ('C16',), run_c16,
                           'base documents of depth<=3, width<=3; one operator per second document at any mapping path (existing or not); quick 250 / thorough 4000 cases',
                           stands_in_for='ComposedNode.remove_node / get_node / _get_node (path walking with callbacks, assumed by the operator contracts), map_nodes premerge traversal'))


def _reg_all(R):
    register(R)
    register2(R)


# ------------------------------------------------------------------------------------------------ C17 / C14: walk, lookup, path text
def run_walk(repo, tier, seed, only=None):
    ay = load(repo)
    from awesomeyaml.nodes.node_path import NodePath
    from awesomeyaml.nodes.composed import ComposedNode
    rng = random.Random(17000 + seed)
    R = Runner('walk')
    for _ in range(n_cases(tier, 200, 3000)):
        g = G.Gen(rng, tags=('force', 'del', 'merge'), p_tag=0.2, int_keys=True)
        text = G.render(g.map(3, top=True))
        if rng.random() < 0.4:
            text = text[:-1] + (', ' if len(text) > 2 else '') + "c0: !call:builtins.dict {x: [1, {y: !required }], z: {w: 2}}, p0: !path [a, b], bd: !bind:builtins.dict {k: [0]}, r0: !required }"
        try:
            b = ay.Builder()
            b.add_source(text, raw_yaml=True)
            root = b.stages[0]
        except Exception as e:
            R.skip(text, e)
            continue
        R.case(text, {'doc': text})
        # reference enumeration straight from the child view
        ref = []

        def walk(n, p):
            for k, c in n.__dict__['_children'].items():
                ref.append((tuple(p + [k]), id(c)))
                if isinstance(c, ComposedNode):
                    walk(c, p + [k])
        walk(root, [])
        got = [(tuple(p), id(n)) for p, n in root.ayns.nodes_with_paths()]
        if sorted(got, key=repr) != sorted(ref, key=repr) or len(got) != len(set(i for _, i in got)):
            R.fail('bounded:C14+C17.tree-walk-yields-every-node-exactly-once-with-its-path', f'doc={text!r}: walk {len(got)} entries, reference {len(ref)}', {'family': 'walk', 'docs': [text]})
        for p, n in root.ayns.nodes_with_paths():
            try:
                found = root.ayns.get_node(p)
            except Exception as e:
                found = e
            if found is not n:
                R.fail('bounded:C09+C16+C17.node-reported-by-the-walk-is-the-one-found-at-its-path', f'doc={text!r}: path {list(p)!r}', {'family': 'walk', 'docs': [text]})
                break
            s = NodePath.get_str_path(p)
            back = list(NodePath.get_list_path(s))
            if back != list(p) and all(isinstance(x, int) or (isinstance(x, str) and x.replace('_', 'a').isalnum()) for x in p):
                R.fail('bounded:C09+C17.path-converted-to-text-and-parsed-back-is-unchanged', f'path {list(p)!r} -> {s!r} -> {back!r}', {'family': 'walk', 'docs': [text]})
                break
    return R.result()


def ref_split(s):
    """independent reference reading of a path text: path := first rest*, first := name | index, rest := '.' name | index,
    name := [a-zA-Z0-9_]+, index := '[' '-'? digits ']'.  Returns the component list, or None for a text that is not a path."""
    import string
    namech = set(string.ascii_letters + string.digits + '_')
    out, i, n = [], 0, len(s)
    while i < n:
        if s[i] == '[':
            j = s.find(']', i)
            body = s[i + 1:j] if j > 0 else ''
            digits = body[1:] if body.startswith('-') else body
            if j < 0 or not digits or not all(ch in string.digits for ch in digits):
                return None
            out.append(int(body))
            i = j + 1
            continue
        if s[i] == '.':
            if i == 0:
                return None
            i += 1
        elif i != 0:
            return None
        j = i
        while j < n and s[j] in namech:
            j += 1
        if j == i:
            return None
        out.append(s[i:j])
        i = j
    return out


def run_pathtext(repo, tier, seed, only=None):
    """NodePath.split_path / get_list_path / get_str_path against the reference reading: every text over a small alphabet up to a length,
    and component lists with multi-digit and negative indices"""
    load(repo)
    from awesomeyaml.nodes.node_path import NodePath
    import itertools
    R = Runner('pathtext')
    name = 'bounded:C09+C17.path-text-is-read-as-the-components-it-spells'
    alphabet = 'a0_.[]-1'
    maxlen = 5 if tier == 'quick' else 7
    bad = 0
    for ln in range(0, maxlen + 1):
        for tup in itertools.product(alphabet, repeat=ln):
            s = ''.join(tup)
            want = ref_split(s)
            try:
                got = list(NodePath.split_path(s))
            except ValueError:
                got = None
            R.cases += 1
            R.extra_distinct = getattr(R, 'extra_distinct', 0) + 1      # all texts are different by construction
            if got != want and bad < 5:
                bad += 1
                R.fail(name, f'text {s!r}: read as {got!r}, spells {want!r}', {'family': 'pathtext', 'docs': [s]})
    rng = random.Random(17500 + seed)
    pool = ['a', 'b0', '_u', 'k_1', '0', '12', 0, 1, 9, 10, 11, 12, 21, 100, 1234, -1, -10, -123]
    for _ in range(n_cases(tier, 400, 6000)):
        comps = [rng.choice(pool) for _ in range(rng.randint(1, 4))]
        s = NodePath.get_str_path(comps)
        R.case(s, {'path': repr(comps)})
        try:
            back = list(NodePath.get_list_path(s))
        except ValueError as e:
            back = e
        if back != comps:
            R.fail('bounded:C09+C17.path-converted-to-text-and-parsed-back-is-unchanged', f'path {comps!r} -> {s!r} -> {back!r}', {'family': 'pathtext', 'docs': [s]})
            break
    return R.result()


REQ = '__REQ__'


def run_c14(repo, tier, seed, only=None):
    """C14 over merge sequences: documents of one shape (mappings, depth <= 3) whose leaves are values or placeholders, leaves and
    containers optionally tagged !force / !weak; which placeholders survive is computed per leaf path from the statement of C03
    (highest priority wins, latest among equals); the build must fail exactly when one survives, list exactly the surviving
    paths, and evaluate nothing before failing (a probe function counts calls)"""
    ay = load(repo)
    from .b_merge import same_shape_docs
    import builtins
    rng = random.Random(14000 + seed)
    R = Runner('C14')
    name = 'bounded:C14.build-fails-exactly-when-a-placeholder-survives-and-lists-every-surviving-path'
    calls = []
    builtins._verif_c14_probe = lambda: calls.append(1) or 7
    try:
        fixed = [[G.mp([('a', G.mp([('b', G.mp([('c', G.leaf(REQ))]))]))]), G.mp([('a', G.mp([('b', G.mp([('c', G.leaf(1))]))], 'weak'))])],
                 [G.mp([('a', G.mp([('b', G.mp([('c', G.leaf(REQ))]))], 'force'))]), G.mp([('a', G.mp([('b', G.mp([('c', G.leaf(1))]))]))])]]
        cases = list(fixed)
        for _ in range(n_cases(tier, 250, 4000)):
            docs = same_shape_docs(rng, rng.randint(1, 4))

            def plant(t, p):
                kind, body, tag = t
                if kind == 'leaf':
                    return (kind, REQ, None) if rng.random() < p else t
                return (kind, [(k, plant(v, p)) for k, v in body], tag)
            docs = [plant(d, 0.5 if i == 0 else 0.15) for i, d in enumerate(docs)]
            cases.append(docs)
        for docs in cases:
            texts = [G.render(d).replace("'" + REQ + "'", '!required ') for d in docs]
            texts[0] = texts[0][:-1] + (', ' if len(texts[0]) > 2 else '') + 'zz_probe: !call:builtins._verif_c14_probe {}}'
            exp = G.priority_fold(docs)
            want = sorted(repr('.'.join(p)) for p, v, _ in G.leaf_paths(('map', [(k, _as_tree(v)) for k, v in exp.items()], None)) if v == REQ)
            del calls[:]
            try:
                ay.Config.build(*texts, raw_yaml=True)
                got = ('ok', None)
            except ValueError as e:
                msg = str(e)
                got = ('missing', sorted(l.strip() for l in msg.split('\n')[1:])) if 'required nodes have not been set' in msg else ('err', msg[:200])
            except Exception as e:
                got = ('err', f'{type(e).__name__}: {e}'[:200])
            R.case(tuple(texts), {'docs': texts, 'surviving': want})
            ok = (got == ('ok', None) and len(calls) == 1) if not want else (got == ('missing', want) and not calls)
            if not ok:
                R.fail(name, f'docs={texts}: surviving placeholders {want}, build gave {got!r}, probe evaluated {len(calls)} time(s)'[:800], {'family': 'c14', 'docs': texts})
    finally:
        del builtins._verif_c14_probe
    return R.result()


def _as_tree(v):
    if isinstance(v, dict):
        return ('map', [(k, _as_tree(x)) for k, x in v.items()], None)
    if isinstance(v, list):
        return ('seq', [_as_tree(x) for x in v], None)
    return ('leaf', v, None)


def run_c10(repo, tier, seed, only=None):
    """C10 over key orders: documents in which dynamic nodes are consumed through references, !eval attribute access into containers,
    call arguments and a top-level key that has the same name as a nested one; every permutation of the top-level keys (thorough) or a
    sample of them (quick) must run every dynamic node exactly once, hand every consumer the very object its target holds, and
    evaluate to the same config"""
    ay = load(repo)
    import builtins
    import itertools
    rng = random.Random(10000 + seed)
    R = Runner('C10')
    calls = []

    class Obj:
        def __init__(self, tag, arg=None):
            self.tag, self.arg = tag, arg
            calls.append(tag)

        def __repr__(self):
            return f'Obj({self.tag})'
    builtins._verif_c10_obj = Obj
    shapes = [
        # (entries, identities to check: (holder path, target path))
        ({'r': '!xref a.b', 'e': '!eval a.c', 'a': '{b: !call:builtins._verif_c10_obj {tag: B}, c: !call:builtins._verif_c10_obj {tag: C}}', 'c': '!call:builtins._verif_c10_obj {tag: TOPC}', 'x': '!xref c'},
         [(['r'], ['a', 'b']), (['e'], ['a', 'c']), (['x'], ['c'])]),
        ({'r': '!xref a.m.b', 'e': '!eval a.m.c', 'a': '{m: {b: !call:builtins._verif_c10_obj {tag: B}, c: !call:builtins._verif_c10_obj {tag: C}}}', 'c': '!call:builtins._verif_c10_obj {tag: TOPC}', 'x': '!eval c'},
         [(['r'], ['a', 'm', 'b']), (['e'], ['a', 'm', 'c']), (['x'], ['c'])]),
        ({'p': '!call:builtins._verif_c10_obj {tag: P}', 'q': '!call:builtins._verif_c10_obj {tag: Q, arg: !xref p}', 's': '!xref p', 't': '[!xref p, !xref q]'},
         [(['s'], ['p']), (['t', 0], ['p']), (['t', 1], ['q'])]),
    ]
    for entries, idents in shapes:
        keys = list(entries)
        orders = list(itertools.permutations(keys))
        if tier == 'quick':
            rng.shuffle(orders)
            orders = orders[:40]
        ntags = sum(v.count('_verif_c10_obj') for v in entries.values())
        for order in orders:
            text = '\n'.join(f'{k}: {entries[k]}' for k in order) + '\n'
            del calls[:]
            R.case(text, {'doc': text})
            try:
                cfg = ay.Config.build(text, raw_yaml=True)
            except Exception as e:
                R.fail('bounded:C10.every-key-order-evaluates-every-dynamic-node-once-and-aliases-its-consumers', f'doc={text!r}: build failed with {type(e).__name__}: {e}'[:400], {'family': 'c10', 'docs': [text]})
                break
            problems = []
            if sorted(calls) != sorted(set(calls)) or len(calls) != ntags:
                problems.append(f'dynamic nodes ran {sorted(calls)}')
            for hp, tp in idents:
                h, t = cfg, cfg
                for x in hp:
                    h = h[x]
                for x in tp:
                    t = t[x]
                if h is not t:
                    problems.append(f'{hp} holds {h!r}, the target {tp} holds {t!r}')
            if problems:
                R.fail('bounded:C10.every-key-order-evaluates-every-dynamic-node-once-and-aliases-its-consumers', f'key order {list(order)}: ' + '; '.join(problems)[:500], {'family': 'c10', 'docs': [text]})
                break
    del builtins._verif_c10_obj
    return R.result()


def run_c07(repo, tier, seed, only=None):
    """C07 end to end: a call / bind node that is unsafe (read from a source added with safe=False, or below an !unsafe node) stays
    refused whatever SAFE later stages do to it - override or add arguments, wipe them with a deleting mapping or a list (which
    promotes the function node into the replacing node's place), rename the target, touch a sibling.  The build must fail with an
    UnsafeError in the exception chain and the probe target must never run."""
    ay = load(repo)
    import builtins
    R = Runner('C07')
    ran = []
    builtins._verif_c07_probe = lambda *a, **k: ran.append((a, k)) or 1
    unsafe_forms = [('unsafe source', 'c: {kind}:builtins._verif_c07_probe {{a: 1}}\n', False, 'c'), ('below !unsafe', 'x: !unsafe {{c: {kind}:builtins._verif_c07_probe {{a: 1}}}}\n', True, 'x.c')]
    later = ['{}', '{b: 2}', '{a: 5}', '!del {b: 2}', '!del {}', '[5]', '[]', 'builtins._verif_c07_probe', None]
    try:
        for kind in ('!call', '!bind'):
            for label, first, first_safe, where in unsafe_forms:
                for lt in later:
                    b = ay.Builder()
                    b.add_source(first.format(kind=kind), raw_yaml=True, safe=first_safe)
                    texts = [first.format(kind=kind)]
                    if lt is not None:
                        second = ('c: %s\n' % lt) if where == 'c' else ('x: {c: %s}\n' % lt)
                        b.add_source(second, raw_yaml=True, safe=True)
                        texts.append(second)
                    if lt in ('{b: 2}',):
                        b.add_source('z: 1\n', raw_yaml=True, safe=True)
                        texts.append('z: 1\n')
                    del ran[:]
                    R.case((kind, label, lt), {'docs': texts, 'first_source_safe': first_safe})
                    try:
                        cfg = ay.Config(b.build())
                        v = cfg['c'] if where == 'c' else cfg['x']['c']
                        if kind == '!bind' and callable(v):
                            outcome = 'a partial of the target was produced'
                        else:
                            outcome = f'built: {v!r}'
                    except Exception as e:
                        chain, cur = [], e
                        while cur is not None and len(chain) < 8:
                            chain.append(type(cur).__name__)
                            cur = cur.__cause__ or cur.__context__
                        outcome = None if 'UnsafeError' in chain else f'failed with {chain} (no UnsafeError)'
                    if ran:
                        outcome = f'the target ran with {ran!r}'
                    if outcome is not None:
                        R.fail('bounded:C07.an-unsafe-dynamic-node-stays-refused-whatever-safe-later-stages-do', f'{label}, docs={texts}: {outcome}'[:600], {'family': 'c07', 'docs': texts})
    finally:
        del builtins._verif_c07_probe
    return R.result()


def register3(R):
    R.tasks.append(Bounded('bounded:C07-unsafe-node-under-later-safe-stages', ('C07',), run_c07,
                           '2 node kinds x 2 origins of unsafety x 9 later safe stages (argument override / addition, deleting mapping or list with and without content, empty mapping, target name, none)',
                           stands_in_for='ConfigNode._replace_self / _replace_other WITH promotion (_maybe_promote copies the instance dictionary of the surviving node; only the no-promotion instances are under a discharged contract)'))
    R.tasks.append(Bounded('bounded:C10-key-orders', ('C10',), run_c10,
                           'three document shapes (references into nested containers, !eval attribute access, a top-level key named like a nested one, call arguments); every permutation of the top-level keys (thorough) / 40 sampled (quick)',
                           stands_in_for='EvalContext.PartialChild.get_or_set / __getitem__ (partial results filed by path), XRefNode lookup through EvalContext.get_node'))
    R.tasks.append(Bounded('bounded:C14-placeholders-over-merge-sequences', ('C14',), run_c14,
                           '1-4 documents of one shape (mappings, depth <= 3, leaves values or !required, !force/!weak on leaves and containers); quick 250 / thorough 4000 sequences',
                           stands_in_for='the composed merge deciding which placeholder is overwritten (its key loop and priority propagation are proved piecewise for C02/C03); '
                                         'Config.check_missing itself is proved over the proved tree walk'))
    R.tasks.append(Bounded('bounded:C17-path-text', ('C17', 'C09'), run_pathtext,
                           'every text of length <= 5 (quick) / 7 (thorough) over the alphabet a 0 1 _ . [ ] - compared with an independent reading of the path grammar; '
                           '400 / 6000 component lists of length <= 4 with multi-digit and negative indices converted to text and back',
                           stands_in_for='NodePath.split_path / join_path (regular expression with look-around; outside the generated verification conditions)'))
    R.tasks.append(Bounded('bounded:C17-walk-lookup-and-path-text', ('C17', 'C14', 'C09', 'C16'), run_walk,
                           'parsed documents of depth<=3 with mapping, list, function, path and placeholder nodes; quick 200 / thorough 3000 trees; path components alphanumeric names and integers',
                           stands_in_for='ComposedNode.nodes_with_paths (nested generator loops; its contract is ASSUMED by Config.check_missing and _require_all_new), get_node/_get_node, NodePath.split_path/join_path (regular expressions)'))


# ------------------------------------------------------------------------------------------------ C11: plain data, re-evaluation, isolation
def run_c11(repo, tier, seed, only=None):
    """histories over one built config: walk it for leaked nodes, evaluate its kept source again, mutate the result and
    evaluate the source once more.  Documents contain plain containers, references, call nodes returning containers and
    multi-line !eval code that hands out containers of the partially evaluated config through `ayns.cfg` (single-name
    code only: see the recorded C12 finding about the bytecode rewriter on this interpreter)."""
    import copy
    ay = load(repo)
    from awesomeyaml.nodes.node import ConfigNode
    from awesomeyaml.utils import Bunch
    rng = random.Random(11000 + seed)
    R = Runner('C11')
    # scalars come out with their EXACT Python type (not a subclass defined by the package), at every position
    sdoc = "b: true\nn: null\nf: 1.5\ni: 3\ns: x\nq: 'true'\nl: [true, false, null, 2]\nm: {k: false, z: 0}\nr: !xref b\nc: !bind:builtins.dict {k: true, v: null}\n"
    R.case(sdoc, {'doc': sdoc})
    try:
        cfg = ay.Config.build(sdoc, raw_yaml=True)
        vals = [('b', cfg['b'], bool), ('n', cfg['n'], type(None)), ('f', cfg['f'], float), ('i', cfg['i'], int), ('s', cfg['s'], str), ('q', cfg['q'], str), ('r', cfg['r'], bool),
                ('l[0]', cfg['l'][0], bool), ('l[1]', cfg['l'][1], bool), ('l[2]', cfg['l'][2], type(None)), ('l[3]', cfg['l'][3], int), ('m.k', cfg['m']['k'], bool), ('m.z', cfg['m']['z'], int),
                ('c.k', cfg['c'].keywords['k'], bool), ('c.v', cfg['c'].keywords['v'], type(None))]
        bad = [(p, type(v).__module__ + '.' + type(v).__name__) for p, v, t in vals if type(v) is not t]
    except Exception as e:
        bad = [('build', f'{type(e).__name__}: {e}'[:200])]
    if bad:
        R.fail('bounded:C11.scalars-come-out-with-their-exact-python-type', f'doc={sdoc!r}: {bad}', {'family': 'c11', 'docs': [sdoc]})

    def leaks(x, path=()):
        if isinstance(x, ConfigNode) or (not isinstance(x, (dict, list, tuple)) and type(x).__module__.startswith('awesomeyaml')):
            return path
        if isinstance(x, dict):
            for k, v in x.items():
                r = leaks(k, path + ('<key>',)) or leaks(v, path + (k,))
                if r:
                    return r
        elif isinstance(x, (list, tuple)):
            for i, v in enumerate(x):
                r = leaks(v, path + (i,))
                if r:
                    return r
        return None

    def mapping_kinds(node, x, path=()):
        """every mapping NODE of the source evaluates to an attribute-accessible dict, every list node to a list (values
        produced by user code - call / eval nodes - are whatever that code returns)"""
        from awesomeyaml.nodes.dict import ConfigDict
        from awesomeyaml.nodes.list import ConfigList
        from awesomeyaml.nodes.function import FunctionNode
        if type(node) is ConfigDict:
            if not isinstance(x, Bunch) or list(x.keys()) != list(node.keys()):
                return path
            for k, v in x.items():
                if isinstance(k, str) and k.isidentifier() and not (k.startswith('__') and k.endswith('__')) and not hasattr(dict, k):
                    try:
                        same = getattr(x, k) is x[k]
                    except AttributeError:
                        same = False
                    if not same:
                        return path + (k,)
                r = mapping_kinds(node.ayns.get_child(k), v, path + (k,))
                if r is not None:
                    return r
        elif type(node) is ConfigList:
            if type(x) is not list or len(x) != len(node):
                return path
            for i, v in enumerate(x):
                r = mapping_kinds(node.ayns.get_child(i), v, path + (i,))
                if r is not None:
                    return r
        return None

    def mutate(x, depth=0):
        """in-place edits of every mutable container reachable from the evaluated config"""
        if isinstance(x, dict):
            for v in list(x.values()):
                mutate(v, depth + 1)
            if x and rng.random() < 0.5:
                del x[next(iter(x))]
            x['zz_added'] = [depth]
        elif isinstance(x, list):
            for v in list(x):
                mutate(v, depth + 1)
            x.append(99)
            if len(x) > 1 and rng.random() < 0.5:
                x[0] = -5

    specials = ["!xref lst", "!xref mp", "!xref 'mp.in'", "!call:builtins.dict {x: [1, 2], y: {z: 3}}", "!call:builtins.list [[1, {q: 2}]]",
                "!eval |\n    x = 1\n    ayns.cfg.lst", "!eval |\n    y = 2\n    ayns.cfg.mp", "!eval '[1, 2, 3]'", "f'v{1}'", "!eval 'dict(a=[1])'"]
    for _ in range(n_cases(tier, 120, 2000)):
        g = G.Gen(rng, tags=('force', 'weak', 'merge'), p_tag=0.15)
        d = g.map(2, top=True)
        lines = ['lst: [1, [2, 3], {k: 4}]', 'mp: {in: [5, 6], m2: {deep: [7]}}']
        for k, v in d[1]:
            if k not in ('lst', 'mp'):
                lines.append(f'{k}: {G.render(v, False)}')
        for i in range(rng.randint(1, 3)):
            lines.append(f's{i}: {rng.choice(specials)}')
        if rng.random() < 0.4:
            lines.append('nest: {inner: ' + rng.choice(specials[:5]) + '}')
        text = '\n'.join(lines) + '\n'
        try:
            cfg = ay.Config.build(text, raw_yaml=True)
        except Exception as e:
            R.skip(text, e)
            continue
        R.case(text, {'doc': text})
        lk = leaks(cfg)
        if lk is not None:
            R.fail('bounded:C11.no-node-object-anywhere-in-the-built-config', f'doc={text!r}: node object at {list(lk)!r}', {'family': 'c11', 'docs': [text]})
            continue
        mk = mapping_kinds(cfg.ayns.source, cfg)
        if mk is not None:
            R.fail('bounded:C11.mapping-nodes-become-attribute-accessible-dicts-and-list-nodes-lists-of-the-same-shape', f'doc={text!r}: at {list(mk)!r}', {'family': 'c11', 'docs': [text]})
        snap = copy.deepcopy(to_plain(cfg))
        src_repr = repr(cfg.ayns.source)
        try:
            again = to_plain(ay.Config(cfg.ayns.source))
        except Exception as e:
            R.fail('bounded:C11.evaluating-the-kept-source-again-gives-an-equal-config', f'doc={text!r}: {type(e).__name__}: {e}'[:500], {'family': 'c11', 'docs': [text]})
            continue
        if again != snap:
            R.fail('bounded:C11.evaluating-the-kept-source-again-gives-an-equal-config', f'doc={text!r}: first {snap!r}, again {again!r}'[:700], {'family': 'c11', 'docs': [text]})
            continue
        mutate(cfg)
        if repr(cfg.ayns.source) != src_repr:
            R.fail('bounded:C11.mutating-the-evaluated-config-never-changes-the-source', f'doc={text!r}: source tree changed', {'family': 'c11', 'docs': [text]})
            continue
        for rnd in range(2):
            try:
                third = ay.Config(cfg.ayns.source)
            except Exception as e:
                R.fail('bounded:C11.evaluating-the-source-after-mutating-the-result-gives-the-original-config', f'doc={text!r}: {type(e).__name__}: {e}'[:500], {'family': 'c11', 'docs': [text]})
                break
            if to_plain(third) != snap:
                R.fail('bounded:C11.evaluating-the-source-after-mutating-the-result-gives-the-original-config',
                       f'doc={text!r}: expected {snap!r}, got {to_plain(third)!r}'[:800], {'family': 'c11', 'docs': [text]})
                break
            mutate(third)
    return R.result()


def register4(R):
    R.tasks.append(Bounded('bounded:C11-reevaluation-and-isolation', ('C11',), run_c11,
                           'documents of depth<=3 with lists, mappings, references, call nodes and multi-line !eval handing out containers; per document: '
                           'one build, one re-evaluation, one mutation of every reachable container, two further re-evaluations; quick 120 / thorough 2000 documents',
                           stands_in_for='class-specific on_evaluate_impl of containers and dynamic nodes (ASSUMED to return any value), copy.deepcopy of the source tree, repeated use of one source'))


def _reg_all(R):
    register(R)
    register2(R)
    register3(R)
    register4(R)
