"""Config construction: required placeholders (C14), result is plain data (C11)."""
import z3
from pyvc import sym
from pyvc.sym import Val, is_none, is_bool, is_int, is_str, is_ref, b_of, i_of, r_of, ListT
from pyvc.contract import Contract, P, Raises, Loop
from pyvc.values import SV, PathV, IterV
from . import spec as S

C = 'awesomeyaml/nodes/composed.py::'
CF = 'awesomeyaml/config.py::'
WalkLen = z3.Function('WalkLen', sym.I, sym.I)
RelPath = z3.Function('RelPath', sym.I, sym.I, sym.PathSort)


def register(R):
    def any_required(c, h, root):
        x = z3.Int('!rx')
        return z3.Exists([x], z3.And(S.Desc(root, x), x > 0, c.eng.isinstance_term(h.cls(x), 'RequiredNode')))

    def cm_inv(c, L):
        ml = L.heap.l(r_of(L.t('missing')))
        nodes, _paths = L.it           # what is iterated: the node list (and path table) of the walk result
        j = z3.Int('!mj')
        return [('missing-iff-a-placeholder-was-seen', (ml.len > 0) == z3.Exists([j], z3.And(0 <= j, j < L.i, c.eng.isinstance_term(L.heap.cls(r_of(nodes.get(j))), 'RequiredNode')))),
                ('len', ml.len >= 0), ('classes-stable', L.heap.arr('$cls') == L.entry_heap.arr('$cls'))]

    from .c_walk import KEY as WALK
    R.add(Contract(CF + 'Config.check_missing', [P.node('cfg', 'ConfigDict')], pure=True,
                   requires=lambda c: [S.subwf_clause(c.eng, c.pre, c.ref('cfg'))],
                   raises=[Raises('ValueError', when=lambda c: any_required(c, c.pre, c.ref('cfg')), exact=True, name='C14.fails-iff-a-required-placeholder-remains-anywhere-in-the-tree')],
                   loops={0: Loop(cm_inv, mod_locals=['path', 'node'], mod_fields=[], mod_at=lambda c, L: [(f, [r_of(L.loc['missing'].t)]) for f in ('$llen', '$litem')])},
                   props=('C14',), opts={'use': {WALK: 'recursive-walk-no-prefix'}, 'no_search': True},
                   note='over the PROVED contract of the tree walk (c_walk): sound + complete enumeration of the descendants'))


def register_init(R):
    E = 'awesomeyaml/eval_context.py::'
    Copy = z3.Function('DeepCopy', sym.I, sym.I)

    def deepcopy(it, a, kw, n, fr):
        # copy.deepcopy: a NEW tree of the same kinds (assumed here; the copy protocol of the nodes is the subject of C19)
        v = it.sv(a[0], n)
        r = it.run.fresh('copy', sym.I)
        floor = getattr(it.run, 'floor', z3.IntVal(-1000000))
        it.run.assume(z3.And(r < floor, r == Copy(sym.r_of(v.t)), it.heap.cls(r) == it.heap.cls(sym.r_of(v.t))))
        it.run.floor = r
        it.run.event('deepcopy', lineno=getattr(n, 'lineno', None), args=[v], result=r, index=len(it.run.events))
        return SV(sym.mk_ref(r), hint=v.hint)
    R.opaque['copy.deepcopy'] = deepcopy
    R.inline_keys |= {'awesomeyaml/utils.py::Bunch.__init__'}
    R.add(Contract(E + 'EvalContext.evaluate', [P.node('self', 'EvalContext', exact=True), P.node('config_dict', 'ConfigDict')], name='effect', assume_only=True,
                   effects=[('evaluate',)], modifies=lambda c: [(f, 'all') for f in ('_cfg', '_ecfg', 'user_data', '$mlen', '$mkeyat', '$mpos', '$mval', '$llen', '$litem')],
                   raises=[Raises('EvalError'), Raises('UnsafeError')], result=P.map('result'), props=('C11', 'C14'),
                   note='evaluation of a whole tree (the per-node memo is proved for C10); an effect here'))
    R.add(Contract(CF + 'Config.check_missing', [P.node('cfg', 'ConfigDict')], name='effect', assume_only=True, pure=True, effects=[('check-missing',)],
                   raises=[Raises('ValueError')], props=('C14',), opts={'callee': False}, note='proved as Config.check_missing#default; used here for its position in Config.__init__'))

    def gate_eval(sc, kw):
        prior = [e for e in sc.events if e[2].get('index', -1) < kw['index']]
        checked = any(e[0] == 'check-missing' and e[2]['args'][0].t.eq(sc.a['config_dict'].t) for e in prior)
        copies = [e for e in prior if e[0] == 'deepcopy' and e[2]['args'][0].t.eq(sc.a['config_dict'].t)]
        arg = kw['args'][1]
        is_copy = z3.Or([r_of(arg.t) == e[2]['result'] for e in copies] or [z3.BoolVal(False)])
        return z3.And(z3.BoolVal(checked), is_copy, r_of(arg.t) != sc.ref('config_dict'))

    ok = lambda sc, kw: z3.BoolVal(True)
    R.add(Contract(CF + 'Config.__init__', [P.node('self', 'Config', exact=True), P.node('config_dict', 'ConfigDict', exact=True), P.node('eval_ctx', 'EvalContext', exact=True)],
                   requires=lambda c: [('len', c.pre.m(c.ref('config_dict')).len >= 0)],
                   modifies=lambda c: [(f, 'all') for f in ('_cfg', '_ecfg', 'user_data', '$mlen', '$mkeyat', '$mpos', '$mval', '$llen', '$litem', '_source', '_user_data')],
                   raises=[Raises('ValueError', name='C14.construction-fails-for-missing-placeholders'), Raises('EvalError'), Raises('UnsafeError')],
                   ensures=[('C11.source-kept-is-the-merged-tree-itself', lambda c: z3.Implies(c.pre.m(c.ref('config_dict')).len != 0, c.post.get('_source', c.ref('self')) == c['config_dict']))],
                   props=('C11', 'C14'),
                   opts={'use': {CF + 'Config.check_missing': 'effect', E + 'EvalContext.evaluate': 'effect'}, 'no_search': True,
                         'gates': {'evaluate': gate_eval, 'check-missing': ok, 'deepcopy': ok}},
                   note='order of construction: placeholders are checked before anything is evaluated; what is evaluated is a deep copy, the source kept is the original tree'))


def _reg_all(R):
    register(R)
    register_init(R)


def register_on_evaluate(R):
    N = 'awesomeyaml/nodes/node.py::'
    for k in ('awesomeyaml/nodes/node.py::ConfigNode.ayns.on_evaluate_impl', 'awesomeyaml/nodes/dict.py::ConfigDict.ayns.on_evaluate_impl',
              'awesomeyaml/nodes/list.py::ConfigList.ayns.on_evaluate_impl', 'awesomeyaml/nodes/scalar.py::ConfigScalar.ayns.on_evaluate_impl',
              'awesomeyaml/nodes/call.py::CallNode.ayns.on_evaluate_impl', 'awesomeyaml/nodes/bind.py::BindNode.ayns.on_evaluate_impl',
              'awesomeyaml/nodes/eval.py::EvalNode.ayns.on_evaluate_impl', 'awesomeyaml/nodes/import.py::ImportNode.ayns.on_evaluate_impl',
              'awesomeyaml/nodes/xref.py::XRefNode.ayns.on_evaluate_impl', 'awesomeyaml/nodes/path.py::PathNode.ayns.on_evaluate_impl',
              'awesomeyaml/nodes/required.py::RequiredNode.ayns.on_evaluate_impl', 'awesomeyaml/nodes/recurse.py::RecurseNode.ayns.on_evaluate_impl',
              'awesomeyaml/nodes/function.py::FunctionNode.ayns.on_evaluate_impl'):
        R.add(Contract(k, [P.node('self', 'ConfigNode'), P.path('path'), P.node('ctx', 'EvalContext', exact=True)], name='any-result', assume_only=True,
                       modifies=lambda c: [(f, 'all') for f in ('$mlen', '$mkeyat', '$mpos', '$mval', '$llen', '$litem', '_require_all_safe')],
                       raises=[Raises('Exception')], result=P.val('result', 'any'), props=('C11',), opts={'callee': False},
                       note='class-specific evaluation: may return ANY value or raise (dynamic nodes run user code); the wrapper on_evaluate is what guarantees the result kind'))
    USE = {k: 'any-result' for k in R.by_key if k.endswith('.ayns.on_evaluate_impl')}
    isnode = lambda c, h, t: z3.And(is_ref(t), c.eng.isinstance_term(h.cls(r_of(t)), 'ConfigNode'))
    R.add(Contract(N + 'ConfigNode.ayns.on_evaluate', [P.node('self', 'ConfigNode'), P.path('path'), P.node('root', 'EvalContext', exact=True)],
                   requires=lambda c: [('rethrow-configuration', z3.BoolVal(True))],
                   modifies=lambda c: [(f, 'all') for f in ('$mlen', '$mkeyat', '$mpos', '$mval', '$llen', '$litem', '_require_all_safe')],
                   raises=[Raises('EvalError', name='C11+C12.failures-surface-as-EvalError'), Raises('Exception')],
                   ensures=[('C11.evaluated-value-is-never-a-node', lambda c: z3.Not(isnode(c, c.post, c.rt))),
                            ('C11.evaluated-value-is-not-the-node-itself', lambda c: c.rt != c['self'])],
                   result=P.val('result', 'any'), props=('C11',),
                   opts={'use': USE, 'asserts_are_checks': True, 'no_search': True, 'verify_only': True,
                         'symbolic_globals': ('errors.rethrow', 'errors.shorten_traceback', 'errors.include_original_exception')},
                   note='whatever the class-specific evaluation returns, the wrapper lets only non-node values through (its two assertions), for every node class'))


def register_bunch(R):
    """Bunch.__getattr__ (C11 'mappings become attribute-accessible dicts (cfg.a is cfg['a'])'): attribute access on the evaluated
    mapping returns the very entry stored under that key, for EVERY key present, and fails with AttributeError exactly for the others."""
    U = 'awesomeyaml/utils.py::'

    def req(c):
        s = c.ref('self')
        mm = c.pre.m(s)
        kk = z3.Const('!bk', Val)
        return [('a-dict-object', z3.And(s > 0, mm.len >= 0, S.FA([kk], z3.And(z3.Select(mm.pos, kk) >= -1, z3.Select(mm.pos, kk) < mm.len), patterns=[z3.Select(mm.pos, kk)])))]

    R.add(Contract(U + 'Bunch.__getattr__', [P.node('self', 'Bunch', exact=True), P.val('name', 'str')], requires=req, pure=True,
                   ensures=[('C11.attribute-access-returns-the-entry-of-that-key', lambda c: z3.And(c.pre.m(c.ref('self')).has(c['name']), c.rt == c.pre.m(c.ref('self')).get(c['name'])))],
                   raises=[Raises('AttributeError', when=lambda c: z3.Not(c.pre.m(c.ref('self')).has(c['name'])), exact=True, name='C11.AttributeError-iff-no-such-key')],
                   result=P.val('result', 'any'), props=('C11',), opts={'no_search': True},
                   note='the evaluated form of every mapping node is a Bunch (ConfigDict.on_evaluate_impl); a key is reachable as an attribute whatever its spelling'))


def _reg_all(R):
    register(R)
    register_init(R)
    register_on_evaluate(R)
    register_bunch(R)
