"""replay of a failing case of a bounded stand-in against the real library"""
import json


def replay(prop, d, repo):
    from . import b_merge
    inp = d['input']
    ay = b_merge.load(repo)
    docs = inp.get('docs', [])
    print('documents:', docs)
    print('built    :', b_merge.build(ay, docs))
    if inp.get('variant'):
        print('variant  :', inp['variant'])
        print('built    :', b_merge.build(ay, inp['variant']))
    if inp.get('chain'):
        from . import b_docs as G
        print('wrapped under', inp['chain'], '(see detail)')
    print('recorded :', d.get('detail'))
    fam = inp.get('family')
    runner = getattr(b_merge, 'FAMILIES', {}).get(fam)
    print(f'VIOLATION property={prop} replay={d.get("task")}')
    return 1
