"""replay of a failing case of a bounded stand-in against the real library: the family is run again with the recorded seed and
tier on the tree given by --repo, and the recorded case is looked up among its failures"""
import json


def replay(prop, d, repo):
    from pyvc.check import load_registry
    R = load_registry()
    task = [t for t in R.tasks if t.id == d.get('task')]
    inp = d.get('input')
    print('recorded :', d.get('detail'))
    if not task:
        print(f'bounded task {d.get("task")!r} is no longer registered')
        return 2
    res = task[0].run(repo, d.get('tier') or 'quick', int(d.get('seed') or 0))
    same = [f for f in res.get('failures', []) if f.get('name') == d.get('obligation') and f.get('input') == inp]
    other = [f for f in res.get('failures', []) if f not in same]
    if same:
        print('replayed :', same[0].get('detail'))
        print(f'VIOLATION property={prop} replay={d.get("task")}')
        return 1
    if other:
        print(f'the recorded case no longer fails; the family reports {len(other)} other failure(s), e.g.: {other[0].get("detail")}')
        print(f'VIOLATION property={prop} replay={d.get("task")}')
        return 1
    print(f'the recorded case no longer fails on {repo} ({res.get("cases")} cases run)')
    return 0
