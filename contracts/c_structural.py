"""Structural obligations: decided on the class table / AST of the working tree, no solver."""
import ast
from pyvc.tasks import Structural
from pyvc.source import ClassInfo

# mutators of the built-in bases that property C17 names; a node class that inherits one of them from the built-in
# type cannot keep `_children` in step with the built-in storage
NAMED_LIST_MUTATORS = ['append', 'insert', 'extend', 'remove', 'pop', 'clear', '__setitem__', '__delitem__']
NAMED_DICT_MUTATORS = ['update', 'setdefault', 'pop', 'clear', '__setitem__', '__delitem__']


def c17_overrides(eng):
    out = []
    for cname, base, names in (('ConfigList', 'list', NAMED_LIST_MUTATORS), ('ConfigDict', 'dict', NAMED_DICT_MUTATORS)):
        for sub in sorted(eng.repo.subclasses(cname)):
            for n in names:
                r = eng.repo.resolve_method(sub, n)
                ok = r is not None and not isinstance(r, tuple)
                out.append((f'C17.{sub}.{n}-is-overridden-by-the-node-class', ok,
                            f'{sub}.{n} resolves to {"the built-in " + base if not ok else r.key}'))
    return out


def c10_evaluation_goes_through_the_context(eng):
    """C10 (also C07, C09): the per-class evaluation hook `ayns.on_evaluate` is invoked from EvalContext.evaluate_node only - every
    other place of the package that needs the value of a node asks the context (`evaluate_node`), which memoises by identity and
    enforces the require-all-safe mode.  A direct call anywhere else evaluates a node outside the memo."""
    out = []
    allowed = 'awesomeyaml/eval_context.py::EvalContext.evaluate_node'
    sites = []
    for key, fi in eng.repo.funcs.items():
        for n in ast.walk(fi.node):
            if isinstance(n, ast.Call) and isinstance(n.func, ast.Attribute) and n.func.attr == 'on_evaluate':
                # a call nested in an inner function definition is attributed to that inner function as well; keep the innermost owner
                sites.append((key, n.lineno))
    innermost = {}
    for key, ln in sites:
        cur = innermost.get(ln)
        if cur is None or len(key) > len(cur):
            innermost[ln] = key
    for ln, key in sorted(innermost.items(), key=lambda kv: (kv[1], kv[0])):
        out.append((f'C10.on_evaluate-is-called-only-by-the-memoising-context@{key.split("::")[1]}:{ln}', key == allowed,
                    f'{key} line {ln} calls .on_evaluate(...) directly' if key != allowed else 'inside evaluate_node'))
    if not any(k == allowed for k in innermost.values()):
        out.append(('C10.evaluate_node-calls-on_evaluate', False, 'EvalContext.evaluate_node does not call on_evaluate any more'))
    return out


def register(R):
    R.tasks.append(Structural('structural:C10-evaluation-goes-through-the-context', ('C10', 'C07', 'C09'), c10_evaluation_goes_through_the_context,
                              note='call sites of the evaluation hook: only EvalContext.evaluate_node'))
    R.tasks.append(Structural('structural:C17-mutators-overridden', ('C17',), c17_overrides,
                              note='every mutating method of list/dict named by C17 is defined by the node class (an inherited built-in mutator updates one view only)'))
