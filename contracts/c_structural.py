"""Structural obligations: decided on the class table / AST of the working tree, no solver."""
import ast
from pyvc.tasks import Structural
from pyvc.source import ClassInfo

# mutators of the built-in bases that property C17 names; a node class that inherits one of them from the built-in
# type cannot keep `_children` in step with the built-in storage
NAMED_LIST_MUTATORS = ['append', 'insert', 'extend', 'remove', 'pop', 'clear', '__setitem__', '__delitem__']
NAMED_DICT_MUTATORS = ['update', 'setdefault', 'pop', 'clear', '__setitem__', '__delitem__']


def c17_overrides(eng):
    out = []
    for cname, base, names in (('ConfigList', 'list', NAMED_LIST_MUTATORS), ('ConfigDict', 'dict', NAMED_DICT_MUTATORS)):
        for sub in sorted(eng.repo.subclasses(cname)):
            for n in names:
                r = eng.repo.resolve_method(sub, n)
                ok = r is not None and not isinstance(r, tuple)
                out.append((f'C17.{sub}.{n}-is-overridden-by-the-node-class', ok,
                            f'{sub}.{n} resolves to {"the built-in " + base if not ok else r.key}'))
    return out


def c10_evaluation_goes_through_the_context(eng):
    """C10 (also C07, C09): the per-class evaluation hook `ayns.on_evaluate` is invoked from EvalContext.evaluate_node only - every
    other place of the package that needs the value of a node asks the context (`evaluate_node`), which memoises by identity and
    enforces the require-all-safe mode.  A direct call anywhere else evaluates a node outside the memo."""
    out = []
    allowed = 'awesomeyaml/eval_context.py::EvalContext.evaluate_node'
    sites = []
    for key, fi in eng.repo.funcs.items():
        for n in ast.walk(fi.node):
            if isinstance(n, ast.Call) and isinstance(n.func, ast.Attribute) and n.func.attr == 'on_evaluate':
                # a call nested in an inner function definition is attributed to that inner function as well; keep the innermost owner
                sites.append((key, n.lineno))
    innermost = {}
    for key, ln in sites:
        cur = innermost.get(ln)
        if cur is None or len(key) > len(cur):
            innermost[ln] = key
    for ln, key in sorted(innermost.items(), key=lambda kv: (kv[1], kv[0])):
        out.append((f'C10.on_evaluate-is-called-only-by-the-memoising-context@{key.split("::")[1]}:{ln}', key == allowed,
                    f'{key} line {ln} calls .on_evaluate(...) directly' if key != allowed else 'inside evaluate_node'))
    if not any(k == allowed for k in innermost.values()):
        out.append(('C10.evaluate_node-calls-on_evaluate', False, 'EvalContext.evaluate_node does not call on_evaluate any more'))
    return out


def c11_memo_keys_keep_their_node_alive(eng):
    """C10/C11: a memo keyed by object identity is only sound while the object lives - CPython reuses the address of a freed object.
    Every store into an identity memo of the package (EvalContext._eval_cache_id, the nodes memo of type deduction, the cache of
    map_nodes, the deep-copy memo) uses utils.persistent_id(obj), which keeps obj alive as long as the key exists; a bare id(obj) as
    a STORED key lets a temporary node (a !rec stage, a node returned by !eval code) alias the result of an earlier one."""
    out = []
    n_sites = 0
    for key, fi in eng.repo.funcs.items():
        if fi.kind == 'nested':
            continue
        for n in ast.walk(fi.node):
            if isinstance(n, ast.Assign) and len(n.targets) == 1 and isinstance(n.targets[0], ast.Subscript):
                idx = n.targets[0].slice
                if isinstance(idx, ast.Call):
                    fn = ast.unparse(idx.func)
                    if fn == 'id' or fn.endswith('persistent_id'):
                        n_sites += 1
                        out.append((f'C10+C11.identity-memo-key-keeps-the-object-alive@{key.split("::")[1]}:{n.lineno}', fn.endswith('persistent_id'),
                                    f'{ast.unparse(n.targets[0])} in {key} line {n.lineno}'))
    if n_sites == 0:
        out.append(('C10+C11.identity-memos-found', False, 'no store into an identity-keyed memo found (the scan no longer matches the code)'))
    return out


def c20_no_process_wide_state_written_at_run_time(eng):
    """C20: inside functions of the package nothing is assigned to an attribute of a CLASS of the package (a class attribute is one
    slot shared by all threads).  The only sanctioned exception is the documented setter of the default evaluation symbols."""
    out = []
    allowed = {('awesomeyaml/eval_context.py::EvalContext.set_default_eval_symbols', 'EvalContext._default_eval_symbols')}
    classes = set(eng.repo.classes) | {'AwesomeyamlLoader', 'AwesomeyamlDumper'}
    seen = 0
    for key, fi in eng.repo.funcs.items():
        for n in ast.walk(fi.node):
            targets = []
            if isinstance(n, ast.Assign):
                targets = n.targets
            elif isinstance(n, (ast.AugAssign, ast.AnnAssign)):
                targets = [n.target]
            for t in targets:
                for tt in (t.elts if isinstance(t, ast.Tuple) else [t]):
                    if isinstance(tt, ast.Attribute) and isinstance(tt.value, ast.Name) and tt.value.id in classes:
                        seen += 1
                        name = f'{tt.value.id}.{tt.attr}'
                        ok = (key, name) in allowed
                        out.append((f'C20.no-class-attribute-written-at-run-time@{key.split("::")[1]}:{n.lineno}:{name}', ok,
                                    f'{key} line {n.lineno} assigns {name}' + (' (documented process-wide default)' if ok else ' - a slot shared by all threads')))
    if seen == 0:
        out.append(('C20.no-class-attribute-written-at-run-time', True, 'no assignment to a class attribute inside any function of the package'))
    return out


WALKS = ('named_children', 'nodes_with_paths', 'nodes', 'nodes_paths')


def consumers_see_every_position(eng):
    """C10 / C11 / C14: a node object bound at several positions of a tree (a YAML alias on a tagged node, one Python object used twice)
    is a node AT EACH of them: the evaluated mapping has every key (C11 'the structure mirrors the merged tree'), every consumer
    receives the value (C10), every placeholder path is listed (C14).  The enumeration helpers can be asked to skip positions whose
    node was seen before (allow_duplicates=False); no consumer in the package may ask for that - only the helpers themselves hand
    the parameter on."""
    out = []
    helpers = tuple('awesomeyaml/nodes/composed.py::ComposedNode.ayns.' + w for w in WALKS)
    seen = set()
    for key, fi in sorted(eng.repo.funcs.items()):
        if key.startswith(helpers) or '$' in key:
            continue
        if isinstance(fi.node, ast.FunctionDef) and any(a.arg == 'allow_duplicates' for a in fi.node.args.args + fi.node.args.kwonlyargs):
            continue        # a helper that takes the switch itself and hands it on (children, nodes, ...)
        for n in ast.walk(fi.node):
            if isinstance(n, ast.Call) and isinstance(n.func, ast.Attribute) and n.func.attr in WALKS:
                if (n.lineno, n.col_offset, fi.module.relpath) in seen:
                    continue
                seen.add((n.lineno, n.col_offset, fi.module.relpath))
                kws = [k for k in n.keywords if k.arg == 'allow_duplicates']
                ok = all(isinstance(k.value, ast.Constant) and k.value.value is True for k in kws)
                # positional form: named_children(False) / nodes_with_paths(prefix, recursive, include_self, allow_duplicates)
                pos = {'named_children': 0, 'nodes_with_paths': 3, 'nodes': 2, 'nodes_paths': 2}[n.func.attr]
                if len(n.args) > pos:
                    a = n.args[pos]
                    ok = ok and isinstance(a, ast.Constant) and a.value is True
                out.append((f'C10+C11+C14.consumer-of-the-tree-enumeration-sees-a-shared-node-at-every-position@{key.split("::")[1]}:{n.lineno}', ok,
                            f'{fi.module.relpath}:{n.lineno} calls {n.func.attr}(...) ' + ('asking to skip positions of nodes seen before' if not ok else 'without skipping')))
    if not out:
        out.append(('C10+C11+C14.consumers-of-the-tree-enumeration-found', False, 'no call of the enumeration helpers found in the package'))
    return out


def descriptors_keep_no_state(eng):
    """C20: a descriptor object (Namespace, staticproperty, ...) lives in a CLASS dictionary, i.e. it is shared by every thread of the
    process; whatever its __get__ stores on itself is process-wide state that another thread can replace between two statements.
    No __get__ of the package assigns an attribute of the descriptor."""
    out = []
    for key, fi in sorted(eng.repo.funcs.items()):
        if not key.endswith('.__get__') or not isinstance(fi.node, ast.FunctionDef) or not fi.node.args.args:
            continue
        me = fi.node.args.args[0].arg
        bad = []
        for n in ast.walk(fi.node):
            tgts = n.targets if isinstance(n, ast.Assign) else [n.target] if isinstance(n, (ast.AugAssign, ast.AnnAssign)) else []
            for t in tgts:
                if isinstance(t, ast.Attribute) and isinstance(t.value, ast.Name) and t.value.id == me:
                    bad.append((n.lineno, t.attr))
        out.append((f'C20.descriptor-access-stores-nothing-on-the-shared-descriptor@{key.split("::")[1]}', not bad,
                    f'{key} assigns {bad} on the descriptor object (shared by all threads through the class)' if bad else 'no assignment to the descriptor'))
    return out


def register(R):
    R.tasks.append(Structural('structural:C20-descriptors-keep-no-state', ('C20',), descriptors_keep_no_state,
                              note='__get__ methods of the package do not write attributes of the (class-level, hence shared) descriptor object'))
    R.tasks.append(Structural('structural:C11-shared-nodes-count-at-every-position', ('C10', 'C11', 'C14'), consumers_see_every_position,
                              note='call sites of named_children / nodes_with_paths / nodes / nodes_paths outside the helpers: none asks to skip shared nodes'))
    R.tasks.append(Structural('structural:C11-identity-memo-keys', ('C10', 'C11'), c11_memo_keys_keep_their_node_alive,
                              note='stores into identity-keyed memos use utils.persistent_id'))
    R.tasks.append(Structural('structural:C20-no-process-wide-state', ('C20',), c20_no_process_wide_state_written_at_run_time,
                              note='no assignment to class attributes inside functions'))
    R.tasks.append(Structural('structural:C10-evaluation-goes-through-the-context', ('C10', 'C07', 'C09'), c10_evaluation_goes_through_the_context,
                              note='call sites of the evaluation hook: only EvalContext.evaluate_node'))
    R.tasks.append(Structural('structural:C17-mutators-overridden', ('C17',), c17_overrides,
                              note='every mutating method of list/dict named by C17 is defined by the node class (an inherited built-in mutator updates one view only)'))
