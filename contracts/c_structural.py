"""Structural obligations: decided on the class table / AST of the working tree, no solver."""
import ast
from pyvc.tasks import Structural
from pyvc.source import ClassInfo

# mutators of the built-in bases that property C17 names; a node class that inherits one of them from the built-in
# type cannot keep `_children` in step with the built-in storage
NAMED_LIST_MUTATORS = ['append', 'insert', 'extend', 'remove', 'pop', 'clear', '__setitem__', '__delitem__']
NAMED_DICT_MUTATORS = ['update', 'setdefault', 'pop', 'clear', '__setitem__', '__delitem__']


def c17_overrides(eng):
    out = []
    for cname, base, names in (('ConfigList', 'list', NAMED_LIST_MUTATORS), ('ConfigDict', 'dict', NAMED_DICT_MUTATORS)):
        for sub in sorted(eng.repo.subclasses(cname)):
            for n in names:
                r = eng.repo.resolve_method(sub, n)
                ok = r is not None and not isinstance(r, tuple)
                out.append((f'C17.{sub}.{n}-is-overridden-by-the-node-class', ok,
                            f'{sub}.{n} resolves to {"the built-in " + base if not ok else r.key}'))
    return out


def register(R):
    R.tasks.append(Structural('structural:C17-mutators-overridden', ('C17',), c17_overrides,
                              note='every mutating method of list/dict named by C17 is defined by the node class (an inherited built-in mutator updates one view only)'))
