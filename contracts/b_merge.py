"""Bounded stand-ins for the merge properties (C02-C05, C08, C15): the composed merge
(ComposedNode.on_merge_impl + filter_nodes + the list variant) is not yet under a discharged one-level contract, so
these end-to-end differential / metamorphic checks stand in for it.  They run the REAL library on generated small
documents against oracles written from the property statements.  Bound: depth <= 3, width <= 3, <= 4 stages,
keys from a 5-element pool; sampled with VERIF_SEED (quick: a few hundred cases per family, thorough: thousands)."""
import importlib
import random
import sys
import os
from pyvc.tasks import Bounded
from . import b_docs as G

_ROOT = [None]


def load(repo_root):
    repo_root = os.path.abspath(repo_root)
    if _ROOT[0] != repo_root:
        if repo_root in sys.path:
            sys.path.remove(repo_root)
        sys.path.insert(0, repo_root)
        for m in [k for k in sys.modules if k == 'awesomeyaml' or k.startswith('awesomeyaml.')]:
            del sys.modules[m]
        _ROOT[0] = repo_root
    ay = importlib.import_module('awesomeyaml')
    assert os.path.abspath(ay.__file__).startswith(repo_root), (ay.__file__, repo_root)
    return ay


def to_plain(x):
    if isinstance(x, dict):
        return {k: to_plain(v) for k, v in x.items()}
    if isinstance(x, (list, tuple)):
        return [to_plain(v) for v in x]
    return x


def typed_eq(a, b):
    if type(a) is not type(b):
        if not (isinstance(a, dict) and isinstance(b, dict)) and not (isinstance(a, list) and isinstance(b, list)):
            return False
    if isinstance(a, dict):
        return list(a.keys()) == list(b.keys()) and all(typed_eq(a[k], b[k]) for k in a)
    if isinstance(a, list):
        return len(a) == len(b) and all(typed_eq(x, y) for x, y in zip(a, b))
    return a == b and type(a) is type(b)


def unordered_eq(a, b):
    if isinstance(a, dict) and isinstance(b, dict):
        return set(a.keys()) == set(b.keys()) and all(unordered_eq(a[k], b[k]) for k in a)
    if isinstance(a, list) and isinstance(b, list):
        return len(a) == len(b) and all(unordered_eq(x, y) for x, y in zip(a, b))
    return a == b and type(a) is type(b)


def build(ay, texts):
    """('ok', plain data) | ('err', exception class name)"""
    try:
        return ('ok', to_plain(ay.Config.build(*texts, raw_yaml=True)))
    except Exception as e:
        return ('err', type(e).__name__)


def n_cases(tier, quick, thorough):
    return quick if tier == 'quick' else thorough


class Runner:
    def __init__(self, name):
        self.name = name
        self.cases = 0
        self.distinct = set()
        self.failures = []
        self.samples = []

    def case(self, key, sample):
        self.cases += 1
        self.distinct.add(key)
        if len(self.samples) < 3:
            self.samples.append(sample)

    def fail(self, name, detail, inp):
        if len(self.failures) < 5:
            self.failures.append({'name': name, 'detail': detail, 'input': inp})

    def skip(self, text, exc):
        """a generated input the library refused to parse: counted, never silently dropped (a generator that mostly produces
        rejected inputs checks nothing)"""
        self.skipped = getattr(self, 'skipped', 0) + 1
        if not hasattr(self, 'skip_samples'):
            self.skip_samples = []
        if len(self.skip_samples) < 3:
            self.skip_samples.append(f'{text!r}: {type(exc).__name__}: {str(exc)[:120]}')

    def result(self):
        out = {'cases': self.cases, 'distinct': len(self.distinct) + getattr(self, 'extra_distinct', 0), 'failures': self.failures, 'samples': self.samples, 'skipped': getattr(self, 'skipped', 0)}
        sk = out['skipped']
        if sk and sk > 0.25 * (sk + self.cases):
            out['error'] = f'{sk} of {sk + self.cases} generated inputs were rejected before the check (generator out of tune): {getattr(self, "skip_samples", [])}'
        return out


# ------------------------------------------------------------------------------------------------ C02
def run_c02(repo, tier, seed, only=None):
    ay = load(repo)
    rng = random.Random(1000 + seed)
    R = Runner('C02')
    corpus = [['{a: 1}', '{a: {b: 2}}'], ['{a: [1, 2, 3]}', '{a: {0: 9}}'], ['{a: [1, 2, 3]}', '{a: {5: 9}}'], ['{a: {}}', '{a: {}}', '{b: []}'],
              ['{a: [1, [2, 3]]}', '{a: {1: {0: 7}}}'], ['{a: [1, 2]}', '{a: {-1: 5}}'], ['{_u: 1, a: {_u: 2}}', '{a: {_u: 3}}'],
              # a mapping with SEVERAL keys merged onto a list: an index that does not exist is an error wherever it stands among valid ones
              ['{a: [1, 2]}', "{a: {5: 'x', 0: 'y'}}"], ['{a: [1, 2]}', "{a: {-7: 'x', 1: 'y'}}"], ['{a: [1, 2]}', "{a: {0: 'y', 5: 'x'}}"], ['{a: [1, 2]}', '{a: {2: 3, 1: 9}}', '{a: {2: 4}}'],
              ['{p: {q: 0}}', '{p: {q: [[1], {k: 1}]}}', "{p: {q: {0: [2], 2: 'x', 1: {k: 2}}}}"], ['{a: [1, 2, 3]}', '{a: {-4: 9}}'], ['{a: [1, 2, 3]}', '{a: {-3: 9, 2: 8}}']]
    cases = [('text', c) for c in corpus] if only is None else [('text', only)]
    if only is None:
        for _ in range(n_cases(tier, 250, 4000)):
            g = G.Gen(rng, tags=(), int_keys=True)
            cases.append(('tree', [g.map(3, top=True) for _ in range(rng.randint(1, 4))]))
        # F2: the older value is a LIST, the newer value (a replacing list, or a mapping addressing indices) holds empty containers
        # at any depth (list merges prune the incoming value with a predicate that is always true for tag-free documents)
        def val(depth):
            k = rng.random()
            if depth <= 0 or k < 0.35:
                return rng.choice([0, 1, 'v', None])
            if k < 0.55:
                return rng.choice([[], {}])
            if k < 0.8:
                return [val(depth - 1) for _ in range(rng.randint(0, 3))]
            return {rng.choice(['x', 'y', 'z']): val(depth - 1) for _ in range(rng.randint(0, 2))}
        for _ in range(n_cases(tier, 150, 2500)):
            old = [val(1) for _ in range(rng.randint(1, 3))]
            if rng.random() < 0.5:
                new = [val(2) for _ in range(rng.randint(0, 3))]
            else:
                idx = rng.sample(range(len(old)), rng.randint(1, len(old)))
                if rng.random() < 0.35:
                    idx.insert(rng.randint(0, len(idx)), rng.choice([len(old), len(old) + 3, -len(old) - 1, -len(old) - 4]))       # an index that does not exist, at any position among the keys
                if rng.random() < 0.3:
                    idx = [i - len(old) if i >= 0 and rng.random() < 0.5 else i for i in idx]                                       # negative spellings of valid indices
                new = {i: val(2) for i in dict.fromkeys(idx)}
            docs = [{'a': old}, {'a': new}]
            if rng.random() < 0.3:
                docs.insert(0, {'a': 5})
            import yaml as _y
            cases.append(('text', [_y.safe_dump(d, default_flow_style=True).strip() for d in docs]))
    for kind, c in cases:
        texts = c if kind == 'text' else [G.render(d) for d in c]
        import yaml
        datas = [yaml.safe_load(t) for t in texts]
        try:
            exp = datas[0]
            for d in datas[1:]:
                exp = G.upd(exp, d)
            exp = ('ok', exp)
        except G.MergeErr:
            exp = ('err', 'MergeError')
        got = build(ay, texts)
        R.case(tuple(texts), {'docs': texts, 'expected': repr(exp)[:200]})
        ok = (got[0] == exp[0]) and (got[0] == 'err' and got[1] == exp[1] or got[0] == 'ok' and typed_eq(got[1], exp[1]))
        if not ok:
            R.fail('bounded:C02.merge-of-plain-documents-is-right-biased-recursive-update', f'docs={texts} expected={exp!r} got={got!r}'[:600], {'family': 'c02', 'docs': texts})
    return R.result()


# ------------------------------------------------------------------------------------------------ C03
def same_shape_docs(rng, n):
    g = G.Gen(rng, tags=(), allow_seq=False, leaves=[0, 1, 2, 'v'])
    base = g.map(3, top=True)

    def retag(t, depth=0):
        kind, body, tag = t
        if kind == 'leaf':
            return (kind, rng.choice([0, 1, 2, 3, 'v', 'w']), rng.choice([None, None, 'force', 'weak']))
        return (kind, [(k, retag(v, depth + 1)) for k, v in body], None if depth == 0 else rng.choice([None, None, None, 'force', 'weak']))
    return [retag(base) for _ in range(n)]


def run_c03(repo, tier, seed, only=None):
    ay = load(repo)
    rng = random.Random(2000 + seed)
    R = Runner('C03')
    cases = []
    corpus = [[G.mp([('a', G.mp([('b', G.mp([('c', G.leaf(1))]))], 'force'))]), G.mp([('a', G.mp([('b', G.mp([('c', G.leaf(2))]))]))])]]
    if only is not None:
        texts_list = [only]
    else:
        for _ in range(n_cases(tier, 250, 4000)):
            cases.append(same_shape_docs(rng, rng.randint(2, 4)))
        texts_list = None
    for docs in (corpus + cases) if texts_list is None else []:
        texts = [G.render(d) for d in docs]
        exp = G.priority_fold(docs)
        got = build(ay, texts)
        R.case(tuple(texts), {'docs': texts, 'expected': repr(exp)[:200]})
        if got[0] != 'ok' or not unordered_eq(got[1], exp):
            R.fail('bounded:C03.highest-priority-writer-wins-latest-among-equals', f'docs={texts} expected={exp!r} got={got!r}'[:600], {'family': 'c03', 'docs': texts})
    kf = ['{a: [!force 7]}', '{a: [0, 1]}']
    got = build(ay, kf)
    R.cases += 1
    if got != ('ok', {'a': [7, 1]}):
        R.fail('bounded:C03.known:priority-tagged-list-elements', f'docs={kf}: expected a: [7, 1] (position 1 is written only by the second document), got {got!r}', {'family': 'c03', 'docs': kf})
    if texts_list is not None:
        got = build(ay, only)
        return {'cases': 1, 'distinct': 1, 'failures': [], 'samples': [{'docs': only, 'got': repr(got)}]}
    return R.result()


# ------------------------------------------------------------------------------------------------ C04
def run_c04(repo, tier, seed, only=None):
    ay = load(repo)
    rng = random.Random(3000 + seed)
    R = Runner('C04')
    name = 'bounded:C04.deleting-node-replaces-exactly-except-strictly-stronger-older-entries'
    fixed = [
        (['{x: {a: {q: 2}}}', '{x: {a: !del {x: {a: {q: !weak 9}}}}}'], {'x': {'a': {'x': {'a': {'q': 9}}}}}),
        (['{a: {q: 2, r: 3}}', '{a: !del {s: 1}}'], {'a': {'s': 1}}),
        (['{a: {q: !force 2, r: 3}}', '{a: !del {s: 1}}'], {'a': {'q': 2, 's': 1}}),
        (['{a: {q: !force 2, r: 3}}', '{a: !del {q: 7}}'], {'a': {'q': 2}}),
        (['{a: [1, 2, 3]}', '{a: [9]}'], {'a': [9]}),
        (['{a: [1, 2, 3]}', '{a: !merge [9]}'], {'a': [9, 2, 3]}),
        (['{a: {b: 1}, c: 2}', '{a: !del }'], {'c': 2}),
        (['{a: {b: 1}, c: [1, 2]}', '{c: !clear , a: !clear }'], {'a': {}, 'c': []}),
        (['{a: {b: {c: 1, d: 2}}}', '{a: {b: !del {e: 5}}}'], {'a': {'b': {'e': 5}}}),
        (['{a: {b: !force {c: 1}, d: 2}}', '{a: !del {e: 5}}'], {'a': {'b': {'c': 1}, 'e': 5}}),
    ]
    cases = list(fixed) if only is None else []
    if only is None:
        # F1: untagged older content under a deleting newer node is replaced exactly (at any depth of the deleting node)
        for _ in range(n_cases(tier, 200, 3000)):
            g = G.Gen(rng, tags=())
            old = g.node(2)
            new = g.map(2) if rng.random() < 0.6 else G.sq([g.node(1) for _ in range(rng.randint(0, 3))])
            if old[0] == 'seq' and new[0] == 'map':
                # a mapping merged onto a list addresses indices (C02: anything else is a MergeError), also when tagged !del
                old = g.map(2)
            if new[0] == 'map':
                if not new[1]:
                    new = (new[0], [('a', G.leaf(1))], None)      # an empty `!del {}` is the remove-this-key idiom: not this family
                new = (new[0], new[1], 'del')
            chain = rng.sample(G.KEYS, rng.randint(1, 2))
            o, nw = old, new
            for k in reversed(chain):
                o, nw = G.wrap(o, k), G.wrap(nw, k)
            sib = rng.choice(G.KEYS)
            if sib not in chain[:1]:
                o = (o[0], o[1] + [(sib, G.leaf(5))], None)
            exp = G.plain(o)
            G.set_path(exp, tuple(chain), G.plain(new))
            cases.append(([G.render(o), G.render(nw)], exp))
        # F2: strictly stronger older leaves survive a deleting mapping
        for _ in range(n_cases(tier, 150, 2000)):
            keys = rng.sample(G.KEYS, 3)
            old_items = [(k, G.leaf(rng.randint(0, 3), rng.choice([None, 'force', 'weak']))) for k in keys[:rng.randint(1, 3)]]
            new_keys = rng.sample(G.KEYS, rng.randint(1, 3))      # not empty: `!del {}` is the remove-this-key idiom
            new_items = [(k, G.leaf(rng.randint(4, 7), rng.choice([None, None, 'weak', 'force']))) for k in new_keys]
            exp_inner = {}
            for k, (_, v, t) in old_items:
                po = {'force': 1, 'weak': -1}.get(t, 0)
                cp = dict(new_items).get(k)
                pn = {'force': 1, 'weak': -1}.get(cp[2], 0) if cp else 0      # counterpart, or the deleting node itself (standard)
                if po > pn:
                    exp_inner[k] = v
            for k, (_, v, t) in new_items:
                if k not in exp_inner:
                    exp_inner[k] = v
            cases.append(([G.render(G.mp([('p', G.mp(old_items))])), G.render(G.mp([('p', G.mp(new_items, 'del'))]))], {'p': exp_inner}))
        # F3: protected entries SEVERAL levels below the deleting node keep their enclosing containers alive (the pruning walk
        # keeps a container iff it is protected itself or something below it survives); everything unprotected goes
        def old_tree(depth):
            items = []
            for k in rng.sample(G.KEYS[:4], rng.randint(1, 3)):
                if depth > 0 and rng.random() < 0.55:
                    items.append((k, old_tree(depth - 1)))
                else:
                    items.append((k, G.leaf(rng.randint(0, 3), rng.choice([None, None, 'force', 'weak']))))
            return G.mp(items)

        def pruned(t):
            out = {}
            for k, v in t[1]:
                if v[0] == 'leaf':
                    if v[2] == 'force':
                        out[k] = v[1]
                else:
                    sub = pruned(v)
                    if sub:
                        out[k] = sub
            return out
        for _ in range(n_cases(tier, 200, 3000)):
            old = old_tree(3)
            new_items = [(k, G.leaf(rng.randint(4, 7))) for k in rng.sample(['n1', 'n2', 'n3'], rng.randint(1, 2))]
            exp_inner = pruned(old)
            exp_inner.update({k: v[1] for k, v in new_items})
            chain = rng.sample(G.KEYS, rng.randint(0, 2))
            o, nw = old, G.mp(new_items, 'del')
            for k in reversed(chain):
                o, nw = G.wrap(o, k), G.wrap(nw, k)
            exp = exp_inner
            for k in reversed(chain):
                exp = {k: exp}
            cases.append(([G.render(o), G.render(nw)], exp))
        # F4: below the deleting node the newer document has a sub-mapping with a priority tag of its own; older entries under it
        # that the newer document does not restate are compared with THAT sub-mapping (the deepest existing node along their path),
        # older entries elsewhere with the deleting node itself
        PR = {'force': 1, 'weak': -1, None: 0}
        for _ in range(n_cases(tier, 150, 2000)):
            t_sub = rng.choice([None, 'weak', 'weak', 'force'])
            olds = {k: (rng.randint(0, 3), rng.choice([None, None, 'force', 'weak'])) for k in rng.sample(['c', 'e', 'g'], rng.randint(1, 3))}
            f_tag = rng.choice([None, 'force', 'weak'])
            old = G.mp([('a', G.mp([('b', G.mp([(k, G.leaf(v, t)) for k, (v, t) in olds.items()])), ('f', G.leaf(7, f_tag))]))])
            new = G.mp([('a', G.mp([('b', G.mp([('d', G.leaf(9))], t_sub))], 'del'))])
            exp_b = {k: v for k, (v, t) in olds.items() if PR[t] > PR[t_sub]}
            exp_b['d'] = 9
            exp_a = {'b': exp_b}
            if PR[f_tag] > 0:
                exp_a['f'] = 7
            chain = rng.sample(G.KEYS[:3], rng.randint(0, 1))
            o, nw, exp = old, new, {'a': exp_a}
            for k in reversed(chain):
                o, nw, exp = G.wrap(o, k), G.wrap(nw, k), {k: exp}
            cases.append(([G.render(o), G.render(nw)], exp))
    else:
        cases = [(only, None)]
    for texts, exp in cases:
        got = build(ay, texts)
        R.case(tuple(texts), {'docs': texts, 'expected': repr(exp)[:200]})
        if exp is not None and (got[0] != 'ok' or not unordered_eq(got[1], exp)):
            R.fail(name, f'docs={texts} expected={exp!r} got={got!r}'[:600], {'family': 'c04', 'docs': texts})
        if exp is None:
            R.samples.append({'got': repr(got)})
    return R.result()


# ------------------------------------------------------------------------------------------------ C05 / C15 (metamorphic)
ALLTAGS = ('force', 'weak', 'del', 'merge')


def gen_sequence(rng, tags=ALLTAGS, no_prio_in_seq=False):
    g = G.Gen(rng, tags=tags, p_tag=0.35)
    g.no_prio_in_seq = no_prio_in_seq
    return [g.map(3, top=True) for _ in range(rng.randint(2, 4))]


def run_c05(repo, tier, seed, only=None):
    ay = load(repo)
    rng = random.Random(5000 + seed)
    R = Runner('C05')
    name = 'bounded:C05.wrapping-every-document-under-a-key-wraps-the-result'
    seqs = [[G.mp([('x', G.mp([('a', G.mp([('q', G.leaf(2))]))]))]), G.mp([('x', G.mp([('a', G.mp([('x', G.mp([('a', G.mp([('q', G.leaf(9, 'weak'))]))]))], 'del'))]))])]]
    for _ in range(n_cases(tier, 300, 5000)):
        seqs.append(gen_sequence(rng, no_prio_in_seq=True))
    # F2: a deleting newer document over older content of mixed priorities, key names shared between levels (a comparison
    # made at the wrong depth then meets a node of the same name)
    def mixed(depth, tags):
        items = []
        for k in rng.sample(['a', 'b', 'x'], rng.randint(1, 3)):
            if depth > 0 and rng.random() < 0.5:
                items.append((k, mixed(depth - 1, tags)))
            else:
                items.append((k, G.leaf(rng.randint(0, 9), rng.choice(tags))))
        return G.mp(items)
    for _ in range(n_cases(tier, 300, 5000)):
        old = mixed(2, [None, None, 'force', 'weak'])
        new = mixed(1, [None, None, 'force', 'weak'])
        new = (new[0], new[1], 'del')
        docs = [old, new]
        if rng.random() < 0.3:
            docs.append(mixed(1, [None, 'force']))
        seqs.append(docs)
    for docs in seqs:
        texts = [G.render(d) for d in docs]
        base = build(ay, texts)
        # wrap under one key and under a chain whose names coincide with keys used inside
        for chain in (['w'], [rng.choice(G.KEYS[:3])], [rng.choice(G.KEYS[:3]), rng.choice(G.KEYS)]):
            wdocs = docs
            for k in reversed(chain):
                wdocs = [G.wrap(d, k) for d in wdocs]
            wtexts = [G.render(d) for d in wdocs]
            got = build(ay, wtexts)
            R.case(tuple(wtexts), {'docs': texts, 'wrapped_under': chain})
            if base[0] == 'ok':
                exp = base[1]
                for k in reversed(chain):
                    exp = {k: exp}
                ok = got[0] == 'ok' and unordered_eq(got[1], exp)
            else:
                ok = got[0] == 'err'
            if not ok:
                R.fail(name, f'docs={texts} wrapped under {chain}: unwrapped result {base!r}, wrapped result {got!r}'[:700], {'family': 'c05', 'docs': texts, 'chain': chain})
    # F3: pre-merge operators (!extend / !append) on a key directly below the root and below a wrapping key, with key names that are not
    # plain identifiers (a path handed on as text would be re-parsed), with and without a sibling whose own path spells the same text
    opname = 'bounded:C05.operators-under-any-key-name-behave-the-same-wrapped-and-unwrapped'
    for key, sib in (('lst', ''), ("'a.b'", ''), ("'a.b'", 'a: {b: [7]}, '), ("'x[0]'", ''), ("'x[0]'", 'x: [[7], 8], '), ("'my-list'", ''), ('0', ''), ("'a b'", '')):
        for op in ('!extend [3]', '!append 3', '!extend [3, [4]]'):
            texts = ['{%s%s: [1, 2]}' % (sib, key), '{%s: %s}' % (key, op)]
            if rng.random() < 0.5:
                texts.append('{%s: %s}' % (key, op))
            base = build(ay, texts)
            nosib = build(ay, [t.replace(sib, '') for t in texts]) if sib else base
            wtexts = ['{w: %s}' % t for t in texts]
            got = build(ay, wtexts)
            R.case(tuple(wtexts), {'docs': texts, 'wrapped_under': ['w']})
            ok = (base[0] == got[0]) and (base[0] != 'ok' or unordered_eq(got[1], {'w': base[1]}))
            if not ok:
                R.fail(opname, f'docs={texts} wrapped under w: unwrapped result {base!r}, wrapped result {got!r}'[:700], {'family': 'c05', 'docs': texts, 'chain': ['w']})
            elif sib and base[0] == 'ok' and nosib[0] == 'ok':
                kk = [k for k in nosib[1]][0]
                if not unordered_eq(base[1].get(kk), nosib[1].get(kk)):
                    R.fail(opname, f'docs={texts}: value at {kk!r} is {base[1].get(kk)!r} with the sibling present and {nosib[1].get(kk)!r} without it', {'family': 'c05', 'docs': texts, 'chain': []})
    return R.result()


def run_c15(repo, tier, seed, only=None):
    ay = load(repo)
    rng = random.Random(6000 + seed)
    R = Runner('C15')
    # recorded finding, re-confirmed on every run (KNOWN_FINDINGS.txt): tagged elements inside a replaced list
    kf = ['{a: [!force 7, 5]}', '{a: [0, 1, !force true]}']
    b1, b2 = build(ay, kf), build(ay, kf + [kf[-1]])
    R.cases += 1
    if b1 != b2:
        R.fail('bounded:C15.known:repeat-with-priority-tagged-list-elements', f'docs={kf}: built {b1!r}, with the last document repeated {b2!r}', {'family': 'c15', 'docs': kf})
    kf2 = ['{b: !force []}', "{b: !merge ['v', [2, 1.5]]}"]
    b1, b2 = build(ay, kf2), build(ay, kf2 + [kf2[-1]])
    R.cases += 1
    if b1 != b2:
        R.fail('bounded:C15.known:nested-list-added-to-a-forced-list-loses-its-items', f'docs={kf2}: built {b1!r}, with the last document repeated {b2!r}', {'family': 'c15', 'docs': kf2})
    # int-keyed mappings merged onto a list, with keys past the end (an error in every variant: repeated, permuted, marked)
    for kf3 in (['{a: [1, 2]}', "{a: {0: 'w', 5: 'x'}}"], ['{a: [1, 2]}', "{a: {3: 'x', 2: 'y'}}"], ['{a: [1, 2]}', "{a: {2: 'x'}}"]):
        b1, b2 = build(ay, kf3), build(ay, kf3 + [kf3[-1]])
        import yaml as _yy
        perm = [kf3[0], _yy.safe_dump({'a': dict(reversed(list(_yy.safe_load(kf3[1])['a'].items())))}, default_flow_style=True).strip()]
        b3 = build(ay, perm)
        R.cases += 1
        if b1 != b2 or (b1[0] != b3[0]) or (b1[0] == 'ok' and not unordered_eq(b1[1], b3[1])):
            R.fail('bounded:C15.repeating-the-last-document-changes-nothing', f'docs={kf3}: built {b1!r}; last document repeated {b2!r}; keys of the last document reversed {b3!r}'[:600], {'family': 'c15', 'docs': kf3})
    for _ in range(n_cases(tier, 300, 5000)):
        docs = gen_sequence(rng, no_prio_in_seq=True)
        texts = [G.render(d) for d in docs]
        base = build(ay, texts)
        R.case(tuple(texts), {'docs': texts})

        def expect_same(variant, label, ordered=False):
            got = build(ay, variant)
            R.cases += 1
            same = (got[0] == base[0]) and (got[0] == 'err' or (typed_eq(got[1], base[1]) if ordered else unordered_eq(got[1], base[1])))
            if not same:
                R.fail('bounded:C15.' + label, f'docs={texts} variant={variant} base={base!r} got={got!r}'[:700], {'family': 'c15', 'docs': texts, 'variant': variant})
        expect_same(list(texts), 'building-twice-gives-equal-results', ordered=True)
        # the remove-this-key idiom (value-less !del) is excluded by the property: not generated
        expect_same(texts + [texts[-1]], 'repeating-the-last-document-changes-nothing')
        pos = rng.randint(1, len(texts))
        expect_same(texts[:pos] + ['{}'] + texts[pos:], 'an-empty-mapping-document-is-neutral')
        # permute keys of every mapping of every document
        def perm(t):
            kind, body, tag = t
            if kind == 'map':
                b = [(k, perm(v)) for k, v in body]
                rng.shuffle(b)
                return (kind, b, tag)
            if kind == 'seq':
                return (kind, [perm(x) for x in body], tag)
            return t
        expect_same([G.render(perm(d)) for d in docs], 'key-order-inside-mappings-does-not-matter')
        # flag neutrality: mark untagged nodes !unsafe / !new
        def mark(t, m):
            kind, body, tag = t
            tg = tag if tag is not None or rng.random() > 0.4 else m
            if kind == 'map':
                return (kind, [(k, mark(v, m)) for k, v in body], tg)
            if kind == 'seq':
                return (kind, [mark(x, m) for x in body], tg)
            return (kind, body, tg)
        for m in ('unsafe', 'new'):
            variant = [G.render((d[0], [(k, mark(v, m)) for k, v in d[1]], None)) for d in docs]
            expect_same(variant, f'marking-nodes-{m}-does-not-change-the-merged-data')
    return R.result()


# ------------------------------------------------------------------------------------------------ C08
def paths_of(d, prefix=()):
    out = {prefix}
    if isinstance(d, dict):
        for k, v in d.items():
            out |= paths_of(v, prefix + (k,))
    elif isinstance(d, list):
        for i, v in enumerate(d):
            out |= paths_of(v, prefix + (i,))
    return out


def run_c08(repo, tier, seed, only=None):
    ay = load(repo)
    rng = random.Random(8000 + seed)
    R = Runner('C08')
    name = 'bounded:C08.notnew-never-creates-a-path'
    for _ in range(n_cases(tier, 300, 5000)):
        g = G.Gen(rng, tags=(), allow_seq=False, leaves=[0, 1, 2])
        base = g.map(3, top=True)
        g2 = G.Gen(rng, tags=(), allow_seq=False, leaves=[7, 8])
        over = g2.map(3, top=True)
        # bias towards overriding existing keys
        if rng.random() < 0.6 and base[1]:
            k, v = rng.choice(base[1])
            over = G.mp([(k, G.leaf(9) if v[0] == 'leaf' or rng.random() < 0.3 else G.mp([(rng.choice([kk for kk, _ in v[1]] or ['zz']), G.leaf(9))]))])
        texts = [G.render(base), '!notnew ' + G.render(over)]
        bp, op = paths_of(G.plain(base)), paths_of(G.plain(over))
        got = build(ay, texts)
        R.case(tuple(texts), {'docs': texts})
        if op <= bp:
            exp = G.upd(G.plain(base), G.plain(over))
            ok = got[0] == 'ok' and unordered_eq(got[1], exp)
        else:
            ok = got[0] == 'err' and got[1] == 'MergeError'
        if got[0] == 'ok' and not paths_of(got[1]) <= bp:
            ok = False
        if not ok:
            R.fail(name, f'docs={texts} got={got!r} (override paths subset of base paths: {op <= bp})'[:600], {'family': 'c08', 'docs': texts})
        # command line form
        if rng.random() < 0.3 and base[1]:
            leafs = [p for p in bp if not isinstance(G.get_path(G.plain(base), p), (dict, list)) and p]
            if leafs:
                p = rng.choice(sorted(leafs, key=repr))
                good = rng.random() < 0.6
                q = p if good else p[:-1] + ('zz',)
                opt = '.'.join(str(x) for x in q) + '=5'
                try:
                    y, f, raw = ay.Config.process_cmdline([opt])
                    cfg = ay.Config.build(G.render(base), *y, raw_yaml=[True] + raw, filename=[None] + f)
                    res = ('ok', to_plain(cfg))
                except Exception as e:
                    res = ('err', type(e).__name__)
                R.cases += 1
                if good:
                    exp = G.plain(base)
                    G.set_path(exp, q, 5)
                    okc = res[0] == 'ok' and unordered_eq(res[1], exp)
                else:
                    okc = res[0] == 'err'
                if not okc:
                    R.fail('bounded:C08.command-line-override-sets-exactly-that-path-or-fails', f'base={G.render(base)} option={opt} got={res!r}'[:600], {'family': 'c08cmd', 'docs': [G.render(base)], 'option': opt})
    # command-line overrides through LIST indices (several adjacent indices on one path component)
    import copy as _copy
    nested = {'m': [[1, 2, 3], [4, 5, 6], [7, 8, 9]], 'a': {'l': [[10, 11], [12]], 't': [[[0, 1], [2, 3]], [[4, 5], [6, 7]]]}}
    cand = [('m', 0, 2), ('m', 2, 0), ('m', 1, 1), ('a', 'l', 0, 1), ('a', 'l', 1, 0), ('a', 't', 0, 1, 1), ('a', 't', 1, 0, 1), ('m', 3, 0), ('a', 'l', 1, 1), ('a', 't', 0, 2, 0)]
    for q in cand + [rng.choice(cand) for _ in range(n_cases(tier, 5, 40))]:
        opt = q[0] + ''.join(f'[{x}]' if isinstance(x, int) else f'.{x}' for x in q[1:]) + '=99'
        try:
            G.get_path(nested, q)
            exists = True
        except (IndexError, KeyError, TypeError):
            exists = False
        try:
            y, f, raw = ay.Config.process_cmdline([opt])
            import yaml as _y
            cfg = ay.Config.build(_y.safe_dump(nested), *y, raw_yaml=[True] + raw, filename=[None] + f)
            res = ('ok', to_plain(cfg))
        except Exception as e:
            res = ('err', type(e).__name__)
        R.cases += 1
        if exists:
            exp = _copy.deepcopy(nested)
            G.set_path(exp, q, 99)
            okc = res[0] == 'ok' and unordered_eq(res[1], exp)
        else:
            okc = res[0] == 'err'
        if not okc:
            R.fail('bounded:C08.command-line-override-sets-exactly-that-path-or-fails', f'base={nested} option={opt} got={res!r}'[:600], {'family': 'c08cmd', 'docs': [repr(nested)], 'option': opt})
    return R.result()


FAMILIES = {'c02': run_c02, 'c03': run_c03, 'c04': run_c04, 'c05': run_c05, 'c15': run_c15, 'c08': run_c08}
BOUND = 'documents of depth<=3, width<=3, keys from {a,b,x,q,_u} (and 0,1), <=4 stages; sampled: quick 150-300 cases per family, thorough 2000-5000, plus a fixed corpus'
COMPOSED_MERGE = 'ComposedNode.ayns.on_merge_impl, ComposedNode.ayns.filter_nodes, ConfigList.ayns.on_merge_impl, Builder.flatten (end to end through Config.build)'


def register(R):
    R.tasks.append(Bounded('bounded:C02-plain-merge-vs-recursive-update', ('C02',), run_c02, BOUND, stands_in_for=COMPOSED_MERGE))
    R.tasks.append(Bounded('bounded:C03-priority-fold', ('C03',), run_c03, BOUND, stands_in_for=COMPOSED_MERGE))
    R.tasks.append(Bounded('bounded:C04-deleting-merge', ('C04',), run_c04, BOUND, stands_in_for=COMPOSED_MERGE))
    R.tasks.append(Bounded('bounded:C05-wrap-invariance', ('C05', 'C04'), run_c05, BOUND, stands_in_for=COMPOSED_MERGE))
    R.tasks.append(Bounded('bounded:C15-merge-laws', ('C15',), run_c15, BOUND, stands_in_for=COMPOSED_MERGE))
    R.tasks.append(Bounded('bounded:C08-notnew-and-cmdline', ('C08',), run_c08, BOUND, stands_in_for=COMPOSED_MERGE + ', Config.process_cmdline'))
