"""C17: the child API of ComposedNode and every mutator of ConfigDict / ConfigList keep the two views of a
container (built-in storage and `_children`) identical."""
import z3
from pyvc import sym
from pyvc.sym import Val, is_none, is_bool, is_int, is_str, is_ref, is_undef, b_of, i_of, r_of, mk_bool, mk_int, mk_str, MapT, ListT
from pyvc.contract import Contract as _Contract, P, Raises, Loop
from pyvc.values import SV
from . import spec as S

C = 'awesomeyaml/nodes/composed.py::'
D = 'awesomeyaml/nodes/dict.py::'
L = 'awesomeyaml/nodes/list.py::'
InDir = z3.Function('InDir', sym.I, Val, z3.BoolSort())
from .c_frames import USE_FRAMES, FLAGMODS
USE_VIEWS = dict(USE_FRAMES)
USE_VIEWS[C + 'ComposedNode.ayns.set_child'] = 'views'


def Contract(*a, **kw):
    opts = dict(kw.get('opts') or {})
    opts.setdefault('use', USE_VIEWS)
    kw['opts'] = opts
    return _Contract(*a, **kw)


def chref(h, r):
    return r_of(h.get('_children', r))


def is_node(c, h, t):
    return z3.And(is_ref(t), c.eng.isinstance_term(h.cls(r_of(t)), 'ConfigNode'))


def all_children_nodes(c, h, r):
    k = z3.Const('!nk', Val)
    m = S.children(h, r)
    return S.FA([k], z3.Implies(m.has(k), is_node(c, h, m.get(k))), patterns=[m.get(k)])


def inv_dict(c, h, d):
    """both views of a mapping node: same keys in the same order with the same (identical) values"""
    return z3.And(h.m(d).eq(S.children(h, d)), chref(h, d) != d)


def inv_list_parts(c, h, l, name='C17.views-agree'):
    m = S.children(h, l)
    lt = h.l(l)
    i = z3.Int('!li')
    k = z3.Const('!lk', Val)
    return [(name + ':same-length', z3.And(m.len == lt.len, lt.len >= 0, chref(h, l) != l)),
            (name + ':child-i-is-item-i', S.FA([i], z3.Implies(z3.And(0 <= i, i < lt.len),
                                                 z3.And(z3.Select(m.keyat, i) == mk_int(i), z3.Select(m.pos, mk_int(i)) == i, m.get(mk_int(i)) == lt.get(i))),
                                 patterns=[z3.Select(m.keyat, i), lt.get(i), z3.Select(m.pos, mk_int(i)), m.get(mk_int(i))])),
            (name + ':children-numbered-0..n-1', S.FA([k], z3.Implies(m.has(k), z3.And(is_int(k), 0 <= i_of(k), i_of(k) < lt.len, z3.Select(m.pos, k) == i_of(k))), patterns=[z3.Select(m.pos, k)])),
            (name + ':pos-range', S.FA([k], z3.Select(m.pos, k) >= -1, patterns=[z3.Select(m.pos, k)]))]


def inv_list(c, h, l):
    """both views of a list node: children are numbered 0..n-1 in order and are the list's items"""
    m = S.children(h, l)
    lt = h.l(l)
    i = z3.Int('!li')
    k = z3.Const('!lk', Val)
    return z3.And(m.len == lt.len, lt.len >= 0, chref(h, l) != l,
                  S.FA([i], z3.Implies(z3.And(0 <= i, i < lt.len),
                                       z3.And(z3.Select(m.keyat, i) == mk_int(i), z3.Select(m.pos, mk_int(i)) == i, m.get(mk_int(i)) == lt.get(i))),
                       patterns=[z3.Select(m.keyat, i), lt.get(i), z3.Select(m.pos, mk_int(i)), m.get(mk_int(i))]),
                  S.FA([k], z3.Implies(m.has(k), z3.And(is_int(k), 0 <= i_of(k), i_of(k) < lt.len, z3.Select(m.pos, k) == i_of(k))), patterns=[z3.Select(m.pos, k)]),
                  S.FA([k], z3.Select(m.pos, k) >= -1, patterns=[z3.Select(m.pos, k)]))


def value_ok(c, h, t):
    """a value handed to a mutator: plain data, or a valid well-formed node"""
    vr = r_of(t)
    return z3.Implies(is_node(c, h, t), z3.And(S.valid_flags(h, vr), S.desc_valid(h, vr), vr > 0))


def common_req(c, names=('self',), value='value'):
    out = []
    if value and False:
        t = c[value]
        vr = r_of(t)
        s = c.ref('self')
        x = z3.Int('!sx')
        out.append(('value-ok', value_ok(c, c.pre, t)))
        out.append(S.subwf_clause(c.eng, c.pre, vr, guard=is_node(c, c.pre, t)))
        # the adopted subtree does not contain the adopting node and shares no child storage with it
        out.append(('value-apart', z3.Implies(is_node(c, c.pre, t), S.FA([x], z3.Implies(S.In(vr, x), z3.And(x != s, chref(c.pre, x) != chref(c.pre, s), chref(c.pre, x) != s)),
                                                                        patterns=[S.Desc(vr, x)]))))
    mm = S.children(c.pre, c.ref('self'))
    kk = z3.Const('!wfk', Val)
    out.append(('children-dict-wellformed', z3.And(mm.len >= 0, S.FA([kk], z3.And(z3.Select(mm.pos, kk) >= -1, z3.Select(mm.pos, kk) < mm.len), patterns=[z3.Select(mm.pos, kk)]))))
    out.append(('children-is-dict', z3.And(is_ref(c.pre.get('_children', c.ref('self'))), c.alive(chref(c.pre, c.ref('self'))),
                                           c.pre.cls(chref(c.pre, c.ref('self'))) == c.cid('dict'))))
    return out




def flag_mods(c, value='value'):
    """adoption pushes flags into the adopted node and below it (frame only: which nodes exactly is not stated here)"""
    return [(f, 'all') for f in FLAGMODS]


def register(R):
    comp = lambda: P.node('self', 'ComposedNode')
    key = lambda n='name': P.val(n, 'key')
    anyv = lambda n='value': P.val(n, 'any')

    # ---- generic child API (ComposedNode.ayns) -------------------------------------------------
    def sc_ens(c):
        s = c.ref('self')
        m0, m1 = S.children(c.pre, s), S.children(c.post, s)
        return [('C17.result-is-node', is_node(c, c.post, c.rt)),
                ('C17.node-argument-is-stored-itself', z3.Implies(is_node(c, c.pre, c['value']), c.rt == c['value'])),
                ('C17.child-view-is-old-view-with-name-bound-to-result', m1.eq(m0.set(c['name'], c.rt)))]

    R.add(Contract(C + 'ComposedNode.ayns.set_child', [comp(), key(), anyv()], name='views', requires=lambda c: common_req(c),
                   modifies=lambda c: [(f, [chref(c.pre, c.ref('self'))]) for f in ('$mlen', '$mkeyat', '$mpos', '$mval')] + flag_mods(c),
                   ensures=[('set_child', sc_ens)], result=P.node('result', 'ConfigNode', maybe_fresh=True), props=('C17',),
                   opts={'callee': False, 'use': USE_VIEWS}))

    def rc_ens(c):
        s = c.ref('self')
        m0, m1 = S.children(c.pre, s), S.children(c.post, s)
        return [('C17.removes-exactly-that-key', z3.If(m0.has(c['name']), m1.eq(m0.delete(c['name'])), m1.eq(m0))),
                ('C17.returns-the-removed-child-or-None', c.rt == z3.If(m0.has(c['name']), m0.get(c['name']), sym.NONE))]

    R.add(Contract(C + 'ComposedNode.ayns.remove_child', [comp(), key()], requires=lambda c: common_req(c, value=None),
                   modifies=lambda c: [(f, [chref(c.pre, c.ref('self'))]) for f in ('$mlen', '$mkeyat', '$mpos', '$mval')],
                   ensures=[('remove_child', rc_ens)], result=P.val('result', 'any'), props=('C17',)))

    R.add(Contract(C + 'ComposedNode.ayns.get_child', [comp(), key(), P.val('default', 'any')], requires=lambda c: common_req(c, value=None), pure=True,
                   ensures=[('C17.lookup-reads-the-child-view', lambda c: c.rt == z3.If(S.children(c.pre, c.ref('self')).has(c['name']),
                                                                                       S.children(c.pre, c.ref('self')).get(c['name']), c['default']))],
                   result=P.val('result', 'any'), props=('C17',)))

    R.add(Contract(C + 'ComposedNode.ayns.has_child', [comp(), key()], requires=lambda c: common_req(c, value=None), pure=True,
                   ensures=[('C17.has_child-iff-key-in-child-view', lambda c: b_of(c.rt) == S.children(c.pre, c.ref('self')).has(c['name']))],
                   result=P.val('result', 'bool'), props=('C17',)))

    R.add(Contract(C + 'ComposedNode.ayns.clear', [comp()], requires=lambda c: common_req(c, value=None),
                   modifies=lambda c: [(f, (lambda r, c=c: z3.Or(r == chref(c.pre, c.ref('self')), z3.And(r == c.ref('self'), c.isinst(c.pre, r, 'dict')))))
                                       for f in ('$mlen', '$mkeyat', '$mpos', '$mval')] +
                                      [(f, (lambda r, c=c: z3.And(r == c.ref('self'), c.isinst(c.pre, r, 'list')))) for f in ('$llen', '$litem')],
                   ensures=[('clear', lambda c: [('C17.child-view-empty', S.children(c.post, c.ref('self')).eq(MapT.empty())),
                                                 ('C17.mapping-storage-empty', z3.Implies(c.isinst(c.pre, c.ref('self'), 'dict'), c.post.m(c.ref('self')).eq(MapT.empty()))),
                                                 ('C17.list-storage-empty', z3.Implies(c.isinst(c.pre, c.ref('self'), 'list'), c.post.l(c.ref('self')).len == 0))])],
                   props=('C17',)))

    # ---- ConfigDict ---------------------------------------------------------------------------
    dct = lambda: P.node('self', 'ConfigDict')
    DM = ('$mlen', '$mkeyat', '$mpos', '$mval')

    def d_req(c, value='value'):
        return common_req(c, value=value) + [('Inv_views', inv_dict(c, c.pre, c.ref('self')))]

    def d_mods(c, value='value'):
        s = c.ref('self')
        out = [(f, [chref(c.pre, s), s]) for f in DM]
        if value:
            out += flag_mods(c, value)
        return out

    def dset_ens(c):
        s = c.ref('self')
        m0, m1 = S.children(c.pre, s), S.children(c.post, s)
        return [('C17.views-agree', inv_dict(c, c.post, s)),
                ('C17.entry-is-node', is_node(c, c.post, c.rt)),
                ('C17.node-argument-is-stored-itself', z3.Implies(is_node(c, c.pre, c['value']), c.rt == c['value'])),
                ('C17.view-is-old-view-with-key-bound', m1.eq(m0.set(c['name'], c.rt)))]

    shadow = lambda c: InDir(c.pre.cls(c.ref('self')), c['name'])
    R.add(Contract(D + 'ConfigDict._set', [dct(), key(), anyv()], requires=d_req, modifies=d_mods, ensures=[('_set', dset_ens)],
                   raises=[Raises('ValueError', when=shadow, exact=True, name='C17.rejects-only-names-shadowing-class-members')],
                   result=P.node('result', 'ConfigNode', maybe_fresh=True), props=('C17',),
                   opts={'ensures_on_raise': [('C17.views-agree-after-rejection', lambda c: inv_dict(c, c.post, c.ref('self')))]}))

    def ddel_ens(c):
        s = c.ref('self')
        m0, m1 = S.children(c.pre, s), S.children(c.post, s)
        return [('C17.views-agree', inv_dict(c, c.post, s)), ('C17.view-is-old-view-without-key', m1.eq(m0.delete(c['name'])))]

    absent = lambda c: z3.Not(S.children(c.pre, c.ref('self')).has(c['name']))
    R.add(Contract(D + 'ConfigDict._del', [dct(), key()], requires=lambda c: d_req(c, None), modifies=lambda c: d_mods(c, None),
                   ensures=[('_del', ddel_ens)], raises=[Raises('KeyError', when=absent, exact=True, name='C17.KeyError-iff-absent')],
                   result=P.val('result', 'any'), props=('C17',),
                   opts={'ensures_on_raise': [('C17.views-agree-after-KeyError', lambda c: inv_dict(c, c.post, c.ref('self')))]}))

    for meth in ('__setitem__',):
        R.add(Contract(D + 'ConfigDict.' + meth, [dct(), key(), anyv()], requires=d_req, modifies=d_mods,
                       ensures=[(meth, lambda c: [('C17.views-agree', inv_dict(c, c.post, c.ref('self'))),
                                                  ('C17.key-bound-in-both-views-to-a-node',
                                                   z3.And(S.children(c.post, c.ref('self')).has(c['name']),
                                                          is_node(c, c.post, S.children(c.post, c.ref('self')).get(c['name'])))),
                                                  ('C17+C01.other-keys-untouched', _others_same(c, c['name']))])],
                       raises=[Raises('ValueError', when=shadow, exact=True, name='C17.rejects-only-names-shadowing-class-members')],
                       result=P.val('result', 'any'), props=('C17', 'C01', 'C19')))
    R.add(Contract(D + 'ConfigDict.__delitem__', [dct(), key()], requires=lambda c: d_req(c, None), modifies=lambda c: d_mods(c, None),
                   ensures=[('__delitem__', ddel_ens)], raises=[Raises('KeyError', when=absent, exact=True, name='C17.KeyError-iff-absent')],
                   props=('C17',)))
    R.add(Contract(D + 'ConfigDict.clear', [dct()], requires=lambda c: d_req(c, None), modifies=lambda c: d_mods(c, None),
                   ensures=[('clear', lambda c: [('C17.views-agree', inv_dict(c, c.post, c.ref('self'))),
                                                 ('C17.empty', S.children(c.post, c.ref('self')).eq(MapT.empty()))])], props=('C17',)))
    R.add(Contract(D + 'ConfigDict.setdefault', [dct(), P.val('key', 'key'), anyv()], requires=d_req, modifies=d_mods,
                   ensures=[('setdefault', lambda c: [('C17.views-agree', inv_dict(c, c.post, c.ref('self'))),
                                                      ('C17.present-key-untouched', z3.Implies(S.children(c.pre, c.ref('self')).has(c['key']),
                                                                                               z3.And(S.children(c.post, c.ref('self')).eq(S.children(c.pre, c.ref('self'))),
                                                                                                      c.rt == S.children(c.pre, c.ref('self')).get(c['key'])))),
                                                      ('C17.absent-key-bound', z3.Implies(z3.Not(S.children(c.pre, c.ref('self')).has(c['key'])),
                                                                                          S.children(c.post, c.ref('self')).eq(S.children(c.pre, c.ref('self')).set(c['key'], c.rt))))])],
                   raises=[Raises('ValueError', when=lambda c: z3.And(InDir(c.pre.cls(c.ref('self')), c['key']), z3.Not(S.children(c.pre, c.ref('self')).has(c['key']))),
                                  exact=True, name='C17.rejects-only-names-shadowing-class-members')],
                   result=P.val('result', 'any'), props=('C17',), opts={'requires_inv_children_nodes': True}))
    R.add(Contract(D + 'ConfigDict.pop', [dct(), P.val('k', 'key')], requires=lambda c: d_req(c, None), modifies=lambda c: d_mods(c, None),
                   ensures=[('pop', lambda c: [('C17.views-agree', inv_dict(c, c.post, c.ref('self'))),
                                               ('C17.view-is-old-view-without-key', S.children(c.post, c.ref('self')).eq(S.children(c.pre, c.ref('self')).delete(c['k']))),
                                               ('C17.returns-removed', c.rt == S.children(c.pre, c.ref('self')).get(c['k']))])],
                   raises=[Raises('KeyError', when=lambda c: z3.Not(S.children(c.pre, c.ref('self')).has(c['k'])), exact=True, name='C17.KeyError-iff-absent')],
                   result=P.val('result', 'any'), props=('C17',), opts={'bind_partial': True, 'setup': _no_default}))
    # pop(k, default): never raises, removes the key from both views when present (seeded change C17: removal skipped when a default is given)
    R.add(Contract(D + 'ConfigDict.pop', [dct(), P.val('k', 'key'), P.val('dflt', 'any')], name='with-default',
                   requires=lambda c: d_req(c, None), modifies=lambda c: d_mods(c, None),
                   ensures=[('pop', lambda c: [('C17.views-agree', inv_dict(c, c.post, c.ref('self'))),
                                               ('C17.view-is-old-view-without-key', z3.If(S.children(c.pre, c.ref('self')).has(c['k']),
                                                                                          S.children(c.post, c.ref('self')).eq(S.children(c.pre, c.ref('self')).delete(c['k'])),
                                                                                          S.children(c.post, c.ref('self')).eq(S.children(c.pre, c.ref('self'))))),
                                               ('C17.returns-removed-or-default', c.rt == z3.If(S.children(c.pre, c.ref('self')).has(c['k']),
                                                                                                S.children(c.pre, c.ref('self')).get(c['k']), c['dflt']))])],
                   result=P.val('result', 'any'), props=('C17',), opts={'bind_partial': True, 'setup': _one_default, 'replay_call': lambda b, args, w: args['self'].pop(args['k'], args['dflt'])}))
    R.add(Contract(D + 'ConfigDict.ayns.set_child', [dct(), key(), anyv()], requires=d_req, modifies=d_mods,
                   ensures=[('set_child', lambda c: [('C17.views-agree', inv_dict(c, c.post, c.ref('self'))),
                                                     ('C17.key-bound-to-node', z3.And(S.children(c.post, c.ref('self')).has(c['name']),
                                                                                      is_node(c, c.post, S.children(c.post, c.ref('self')).get(c['name'])))),
                                                     ('C17.other-keys-untouched', _others_same(c, c['name']))])],
                   raises=[Raises('ValueError', when=shadow, exact=True, name='C17.rejects-only-names-shadowing-class-members')], props=('C17',)))
    R.add(Contract(D + 'ConfigDict.ayns.remove_child', [dct(), key()], requires=lambda c: d_req(c, None), modifies=lambda c: d_mods(c, None),
                   ensures=[('remove_child', ddel_ens)], raises=[Raises('KeyError', when=absent, exact=True, name='C17.KeyError-iff-absent')],
                   result=P.val('result', 'any'), props=('C17',)))
    R.add(Contract(D + 'ConfigDict.__contains__', [dct(), key()], requires=lambda c: d_req(c, None), pure=True,
                   ensures=[('C17.in-operator-agrees-with-both-views', lambda c: z3.And(b_of(c.rt) == S.children(c.pre, c.ref('self')).has(c['name']),
                                                                                        b_of(c.rt) == c.pre.m(c.ref('self')).has(c['name'])))],
                   result=P.val('result', 'bool'), props=('C17',)))


def register_named_children(R):
    """ComposedNode.ayns.named_children called the way the package calls it (no arguments): EVERY (key, child) entry of the
    child view, in order - two keys bound to one and the same node object (a YAML alias, a value the loader shares) are two
    entries.  Container evaluation (dict.py / list.py on_evaluate_impl), filter_nodes and map_nodes iterate this."""
    comp = lambda: P.node('self', 'ComposedNode')

    def lists(c):
        h = c.post
        return h.l(c.x['yields']), h.l(c.x['yields0']), h.l(c.x['yields1'])

    def inv(c, L):
        m = S.children(L.entry_heap, c.ref('self'))
        y, y0, y1 = L.heap.l(c.x['yields']), L.heap.l(c.x['yields0']), L.heap.l(c.x['yields1'])
        j = z3.Int('!nj')
        return [('count', z3.And(y.len == L.i, y0.len == L.i, y1.len == L.i)),
                ('entries', S.FA([j], z3.Implies(z3.And(0 <= j, j < L.i), z3.And(y0.get(j) == z3.Select(m.keyat, j),
                                                                                y1.get(j) == z3.Select(m.val, z3.Select(m.keyat, j)))), patterns=[y0.get(j)])),
                ('children-untouched', S.children(L.heap, c.ref('self')).eq(m))]

    def ens(c):
        m = S.children(c.pre, c.ref('self'))
        y, y0, y1 = lists(c)
        j = z3.Int('!nj')
        return [('C01+C11+C17.one-entry-per-key-also-for-a-node-bound-under-several-keys', z3.And(y.len == m.len, y0.len == m.len, y1.len == m.len)),
                ('C01+C11+C17.entries-are-the-keys-and-children-in-order',
                 S.FA([j], z3.Implies(z3.And(0 <= j, j < m.len), z3.And(y0.get(j) == z3.Select(m.keyat, j), y1.get(j) == z3.Select(m.val, z3.Select(m.keyat, j)))),
                      patterns=[y0.get(j)]))]

    R.add(Contract(C + 'ComposedNode.ayns.named_children', [comp()], name='default-arguments',
                   requires=lambda c: [('len', S.children(c.pre, c.ref('self')).len >= 0), ('children-dict', z3.And(is_ref(c.pre.get('_children', c.ref('self'))), chref(c.pre, c.ref('self')) > 0))],
                   pure=True, ensures=[('named_children', ens)], props=('C01', 'C11', 'C17', 'C10', 'C04'),
                   loops={0: Loop(inv, mod_locals=['name', 'child'], mod_fields=[],
                                  mod_at=lambda c, L: [(f, [c.x['yields'], c.x['yields0'], c.x['yields1']]) for f in ('$llen', '$litem')] +
                                                      [('$set', [r_of(L.loc['memo'].t)]), ('$ypos', [c.x['yields0'], c.x['yields1']])])},
                   opts={'bind_partial': True, 'verify_only': True, 'no_search': True, 'no_model_replay': True},
                   note='generator; its yielded pairs are recorded component-wise in two ghost lists'))


def register_named_children_view(R):
    comp = lambda: P.node('self', 'ComposedNode')
    from pyvc.values import IterV
    R.add(Contract(C + 'ComposedNode.ayns.named_children', [comp()], name='items-view', assume_only=True, pure=True,
                   result=lambda c, it: IterV('items', S.children(c.pre, c.ref('self'))), props=('C04',), opts={'callee': True, 'bind_partial': True},
                   note='call-site view of named_children() called without arguments: iteration over the (key, child) entries of the child view in order - '
                        'exactly what the contract named_children#default-arguments proves of the generator'))


def _reg_all(R):
    register(R)
    register_named_children(R)
    register_named_children_view(R)
    register2(R)
    register3(R)
    register4(R)
    register5(R)
    register6(R)


def _no_default(it, fr, sc):
    from pyvc.values import TupleV
    fr.loc['d'] = TupleV([])


def _one_default(it, fr, sc):
    from pyvc.values import TupleV
    fr.loc['d'] = TupleV([fr.loc.pop('dflt')])


def _others_same(c, name):
    s = c.ref('self')
    m0, m1 = S.children(c.pre, s), S.children(c.post, s)
    k = z3.Const('!ok', Val)
    return S.FA([k], z3.Implies(k != name, z3.And(m1.has(k) == m0.has(k), z3.Implies(m0.has(k), m1.get(k) == m0.get(k)))))


def register2(R):
    """ConfigDict attribute protocol / update, the generic ayns operations applied to mapping and list nodes, ConfigList"""
    dct = lambda: P.node('self', 'ConfigDict')
    lst = lambda: P.node('self', 'ConfigList')
    key = lambda n='name': P.val(n, 'key')
    anyv = lambda n='value': P.val(n, 'any')
    DM = ('$mlen', '$mkeyat', '$mpos', '$mval')
    LM = ('$llen', '$litem')

    def d_req(c, value='value'):
        return common_req(c, value=value) + [('Inv_views', inv_dict(c, c.pre, c.ref('self')))]

    def d_mods(c, value='value'):
        s = c.ref('self')
        out = [(f, [chref(c.pre, s), s]) for f in DM]
        if value:
            out += flag_mods(c, value)
        return out

    shadow = lambda c: InDir(c.pre.cls(c.ref('self')), c['name'])
    # attribute assignment d.x = v  (public names)
    R.add(Contract(D + 'ConfigDict.__setattr__', [dct(), P.val('name', 'str'), anyv()],
                   requires=lambda c: d_req(c) + [('public-name', z3.Not(z3.PrefixOf(z3.StringVal('_'), sym.s_of(c['name']))))],
                   modifies=d_mods,
                   ensures=[('__setattr__', lambda c: [('C17.views-agree', inv_dict(c, c.post, c.ref('self'))),
                                                       ('C17.key-bound-to-node', z3.And(S.children(c.post, c.ref('self')).has(c['name']),
                                                                                        is_node(c, c.post, S.children(c.post, c.ref('self')).get(c['name'])))),
                                                       ('C17.other-keys-untouched', _others_same(c, c['name']))])],
                   raises=[Raises('ValueError', when=shadow, exact=True, name='C17.rejects-only-names-shadowing-class-members')],
                   result=P.val('result', 'any'), props=('C17',)))
    absent = lambda c: z3.Not(S.children(c.pre, c.ref('self')).has(c['name']))
    R.add(Contract(D + 'ConfigDict.__delattr__', [dct(), P.val('name', 'str')],
                   requires=lambda c: d_req(c, None) + [('public-name', z3.Not(z3.PrefixOf(z3.StringVal('_'), sym.s_of(c['name']))))],
                   modifies=lambda c: d_mods(c, None),
                   ensures=[('__delattr__', lambda c: [('C17.views-agree', inv_dict(c, c.post, c.ref('self'))),
                                                       ('C17.view-is-old-view-without-key', S.children(c.post, c.ref('self')).eq(S.children(c.pre, c.ref('self')).delete(c['name'])))])],
                   raises=[Raises('KeyError', when=absent, exact=True, name='C17.KeyError-iff-absent')], props=('C17',)))

    # generic operations reached through `.ayns` on a mapping node (not overridden by ConfigDict)
    for cls, inv, tag in (('ConfigDict', inv_dict, 'mapping'), ('ConfigList', inv_list, 'list')):
        node = lambda cls=cls: P.node('self', cls)
        mods_all = lambda c: [(f, [chref(c.pre, c.ref('self')), c.ref('self')]) for f in DM + LM]
        R.add(Contract(C + 'ComposedNode.ayns.clear', [node()], name=f'on-{tag}-node',
                       requires=lambda c, inv=inv: common_req(c, value=None) + [('Inv_views', inv(c, c.pre, c.ref('self')))],
                       modifies=mods_all, props=('C17',), opts={'verify_only': True},
                       ensures=[(f'C17.views-agree-after-ayns.clear-on-{tag}', lambda c, inv=inv: inv(c, c.post, c.ref('self')))]))
        R.add(Contract(C + 'ComposedNode.ayns.rename_child', [node(), key('old_name'), key('new_name')], name=f'on-{tag}-node',
                       requires=lambda c, inv=inv: common_req(c, value=None) + [('Inv_views', inv(c, c.pre, c.ref('self')))],
                       modifies=mods_all, props=('C17',), opts={'verify_only': True}, result=P.val('result', 'any'),
                       raises=[Raises('ValueError', when=lambda c: z3.Or(z3.Not(S.children(c.pre, c.ref('self')).has(c['old_name'])),
                                                                         S.children(c.pre, c.ref('self')).has(c['new_name'])), exact=True,
                                      name='C17.rename-rejected-iff-old-missing-or-new-taken')],
                       ensures=[(f'C17.views-agree-after-rename_child-on-{tag}', lambda c, inv=inv: inv(c, c.post, c.ref('self')))]))


def register3(R):
    """ConfigList"""
    lst = lambda: P.node('self', 'ConfigList')
    anyv = lambda n='value': P.val(n, 'any')
    DM = ('$mlen', '$mkeyat', '$mpos', '$mval')
    LM = ('$llen', '$litem')

    def norm(i, n):
        return z3.If(i < 0, n + i, i)

    def clamp(i, n):
        j = norm(i, n)
        return z3.If(j < 0, 0, z3.If(j > n, n, j))

    # ---- _validate_index: pure integer contract -----------------------------------------------------
    def vi_bad(c):
        i, n = _iv(c['index']), c.pre.l(c.ref('self')).len
        return z3.And(b_of(c['strict']), z3.Or(z3.If(i < 0, -i, i) > n, i == n))

    R.add(Contract(L + 'ConfigList._validate_index', [lst(), P.val('index', 'prim'), P.val('strict', 'bool')],
                   requires=lambda c: [('len-nonneg', c.pre.l(c.ref('self')).len >= 0)], pure=True,
                   raises=[Raises('TypeError', when=lambda c: z3.Not(_isint(c['index'])), exact=True, name='C17.TypeError-iff-not-integer'),
                           Raises('IndexError', when=lambda c: z3.And(_isint(c['index']), vi_bad(c)), exact=True, name='C02+C17.IndexError-iff-strict-and-out-of-range')],
                   ensures=[('C02+C17.index-normalised-into-range', lambda c: z3.Implies(_isint(c['index']), z3.And(
                       _isint(c.rt), z3.Implies(is_int(c['index']), is_int(c.rt)), _iv(c.rt) == clamp(_iv(c['index']), c.pre.l(c.ref('self')).len),
                       z3.Implies(b_of(c['strict']), z3.And(0 <= _iv(c.rt), _iv(c.rt) < c.pre.l(c.ref('self')).len)))))],
                   result=P.val('result', 'prim'), props=('C17', 'C02')))

    def l_req(c, value='value'):
        return common_req(c, value=value) + [('Inv_views', inv_list(c, c.pre, c.ref('self')))]

    def l_mods(c, value='value'):
        s = c.ref('self')
        out = [(f, [chref(c.pre, s)]) for f in DM] + [(f, [s]) for f in LM]
        if value:
            out += flag_mods(c, value)
        return out

    def items_after_set(c, idx):
        """list view after storing result at normalised position idx (== len: appended)"""
        s = c.ref('self')
        l0, l1 = c.pre.l(s), c.post.l(s)
        j = z3.Int('!sj')
        return z3.And(l1.len == z3.If(idx == l0.len, l0.len + 1, l0.len), l1.get(idx) == c.rt,
                      S.FA([j], z3.Implies(z3.And(0 <= j, j < l0.len, j != idx), l1.get(j) == l0.get(j))))

    # ---- _set ---------------------------------------------------------------------------------------
    def set_ens(c):
        s = c.ref('self')
        n = c.pre.l(s).len
        idx = z3.If(b_of(c['strict']), norm(i_of(c['index']), n), clamp(i_of(c['index']), n))
        return inv_list_parts(c, c.post, s) + [
                ('C17.entry-is-node', is_node(c, c.post, c.post.l(s).get(idx))),
                ('C17.list-is-old-list-with-position-bound', _items_set(c, idx))]

    def _items_set(c, idx):
        s = c.ref('self')
        l0, l1 = c.pre.l(s), c.post.l(s)
        j = z3.Int('!sj')
        return z3.And(l1.len == z3.If(idx == l0.len, l0.len + 1, l0.len),
                      z3.Implies(is_node(c, c.pre, c['value']), l1.get(idx) == c['value']),
                      S.FA([j], z3.Implies(z3.And(0 <= j, j < l0.len, j != idx), l1.get(j) == l0.get(j))))

    R.add(Contract(L + 'ConfigList._set', [lst(), P.val('index', 'int'), anyv(), P.val('strict', 'bool')], requires=l_req, modifies=l_mods,
                   ensures=[('_set', set_ens)],
                   raises=[Raises('IndexError', when=lambda c: vi_bad(c), exact=True, name='C17.IndexError-iff-strict-and-out-of-range')],
                   props=('C17',), opts={'ensures_on_raise': [('C17.views-agree-after-IndexError', lambda c: inv_list(c, c.post, c.ref('self')))]}))

    R.add(Contract(L + 'ConfigList.append', [lst(), anyv()], requires=l_req, modifies=l_mods,
                   ensures=[('append', lambda c: inv_list_parts(c, c.post, c.ref('self')) + [
                                                  ('C17.appended-at-the-end', z3.And(c.post.l(c.ref('self')).len == c.pre.l(c.ref('self')).len + 1,
                                                                                     is_node(c, c.post, c.post.l(c.ref('self')).get(c.pre.l(c.ref('self')).len)),
                                                                                     z3.Implies(is_node(c, c.pre, c['value']), c.post.l(c.ref('self')).get(c.pre.l(c.ref('self')).len) == c['value']))),
                                                  ('C17.older-items-untouched', _prefix_same(c))])], props=('C17', 'C16')))

    R.add(Contract(L + 'ConfigList.clear', [lst()], requires=lambda c: l_req(c, None), modifies=lambda c: l_mods(c, None),
                   ensures=[('clear', lambda c: inv_list_parts(c, c.post, c.ref('self')) + [('C17.empty', c.post.l(c.ref('self')).len == 0)])], props=('C17',)))

    R.add(Contract(L + 'ConfigList._get', [lst(), P.val('index', 'prim'), P.val('default', 'any'), P.val('raise_ex', 'bool')],
                   requires=lambda c: l_req(c, None), pure=True, result=P.val('result', 'any'),
                   raises=[Raises('TypeError', when=lambda c: z3.And(b_of(c['raise_ex']), z3.Not(z3.Or(is_int(c['index']), is_bool(c['index'])))), exact=True, name='TypeError-iff-not-integer-and-raise_ex'),
                           Raises('IndexError', when=lambda c: z3.And(b_of(c['raise_ex']), _isint(c['index']), _oob(c)), exact=True, name='IndexError-iff-out-of-range-and-raise_ex')],
                   ensures=[('C17.lookup-reads-the-item-or-default', lambda c: z3.Implies(_isint(c['index']), c.rt == z3.If(_oob(c), c['default'],
                                                                                           c.pre.l(c.ref('self')).get(norm(_iv(c['index']), c.pre.l(c.ref('self')).len)))))],
                   props=('C17',)))

    # ---- insert -------------------------------------------------------------------------------------
    def ins_ens(c):
        s = c.ref('self')
        l0, l1 = c.pre.l(s), c.post.l(s)
        p = clamp(i_of(c['index']), l0.len)
        j = z3.Int('!ij')
        return inv_list_parts(c, c.post, s) + [
                ('C17.one-item-more', l1.len == l0.len + 1),
                ('C17.inserted-entry-is-a-node', is_node(c, c.post, l1.get(p))),
                ('C17.node-argument-inserted-itself-at-clamped-position', z3.Implies(is_node(c, c.pre, c['value']), l1.get(p) == c['value'])),
                ('C17.items-before-keep-place-items-after-shift-by-one',
                 S.FA([j], z3.And(z3.Implies(z3.And(0 <= j, j < p), l1.get(j) == l0.get(j)),
                                  z3.Implies(z3.And(p <= j, j < l0.len), l1.get(j + 1) == l0.get(j)))))]

    R.add(Contract(L + 'ConfigList.insert', [lst(), P.val('index', 'int'), anyv()], requires=l_req,
                   modifies=lambda c: l_mods(c) + [('_children', [c.ref('self')])],
                   ensures=[('insert', ins_ens)], props=('C17',)))


def _isint(t):
    return z3.Or(is_int(t), is_bool(t))


def _iv(t):
    return z3.If(is_bool(t), z3.If(b_of(t), 1, 0), i_of(t))


def _oob(c):
    i, n = _iv(c['index']), c.pre.l(c.ref('self')).len
    return z3.Or(z3.If(i < 0, -i, i) > n, i == n)


def _prefix_same(c):
    s = c.ref('self')
    l0, l1 = c.pre.l(s), c.post.l(s)
    j = z3.Int('!pj')
    return S.FA([j], z3.Implies(z3.And(0 <= j, j < l0.len), l1.get(j) == l0.get(j)))


def register4(R):
    """ConfigDict.update; remaining ConfigList operations"""
    dct = lambda: P.node('self', 'ConfigDict')
    lst = lambda: P.node('self', 'ConfigList')
    anyv = lambda n='value': P.val(n, 'any')
    DM = ('$mlen', '$mkeyat', '$mpos', '$mval')
    LM = ('$llen', '$litem')

    def wf_children(c, h, s):
        mm = S.children(h, s)
        kk = z3.Const('!wfk', Val)
        return z3.And(mm.len >= 0, S.FA([kk], z3.And(z3.Select(mm.pos, kk) >= -1, z3.Select(mm.pos, kk) < mm.len), patterns=[z3.Select(mm.pos, kk)]))

    def other_wf(c, h, o):
        m = h.m(o)
        i = z3.Int('!oi')
        k = z3.Const('!ok', Val)
        return z3.And(m.len >= 0,
                      S.FA([i], z3.Implies(z3.And(0 <= i, i < m.len), z3.And(z3.Select(m.pos, z3.Select(m.keyat, i)) == i,
                                                                               z3.Or(is_int(z3.Select(m.keyat, i)), is_str(z3.Select(m.keyat, i))))), patterns=[z3.Select(m.keyat, i)]),
                      S.FA([k], z3.And(z3.Select(m.pos, k) >= -1, z3.Select(m.pos, k) < m.len,
                                       z3.Implies(z3.Select(m.pos, k) >= 0, z3.Select(m.keyat, z3.Select(m.pos, k)) == k)), patterns=[z3.Select(m.pos, k)]),
                      S.FA([k], z3.Implies(m.has(k), z3.Implies(is_ref(m.get(k)), r_of(m.get(k)) > 0)), patterns=[m.get(k)]))

    def upd_setup(it, fr, sc):
        r = it.run.alloc('dict')
        it.heap.put_m(r, MapT.empty())
        fr.loc['kwargs'] = SV(sym.mk_ref(r), hint=frozenset(['dict']))

    def upd_req(c):
        s, o = c.ref('self'), c.ref('other')
        return common_req(c, value=None) + [('Inv_views', inv_dict(c, c.pre, s)), ('other-is-a-dict', other_wf(c, c.pre, o)),
                                            ('other-is-not-the-storage', z3.And(o != s, o != chref(c.pre, s)))]

    def processed(mo, k, i):
        p = z3.Select(mo.pos, k)
        return z3.And(0 <= p, p < i)

    def upd_parts(c, h0, h1, s, mo, i):
        m0, m1 = S.children(h0, s), S.children(h1, s)
        k = z3.Const('!uk', Val)
        return [('C17.views-agree', inv_dict(c, h1, s)),
                ('children-dict-wellformed', wf_children(c, h1, s)),
                ('C17.every-given-key-bound-to-a-node', S.FA([k], z3.Implies(processed(mo, k, i), z3.And(m1.has(k), is_node(c, h1, m1.get(k)))), patterns=[z3.Select(mo.pos, k)])),
                ('C17.keys-not-given-untouched', S.FA([k], z3.Implies(z3.Not(processed(mo, k, i)),
                                                                       z3.And(m1.has(k) == m0.has(k), z3.Implies(m0.has(k), m1.get(k) == m0.get(k)))), patterns=[z3.Select(mo.pos, k)])),
                ('storage-identity', z3.And(chref(h1, s) == chref(h0, s), h1.m(c.ref('other')).eq(h0.m(c.ref('other')))))]

    R.add(Contract(D + 'ConfigDict.update', [dct(), P.map('other')], requires=upd_req,
                   modifies=lambda c: [(f, [chref(c.pre, c.ref('self')), c.ref('self')]) for f in DM] + flag_mods(c, None),
                   ensures=[('update', lambda c: upd_parts(c, c.pre, c.post, c.ref('self'), c.pre.m(c.ref('other')), c.pre.m(c.ref('other')).len)[:4])],
                   raises=[Raises('ValueError', name='C17.rejects-names-shadowing-class-members')],
                   loops={0: Loop(lambda c, L: upd_parts(c, L.entry_heap, L.heap, c.ref('self'), L.entry_heap.m(c.ref('other')), L.i),
                                  mod_locals=['k', 'v'], mod_fields=FLAGMODS,
                                  mod_at=lambda c, L: [(f, [chref(L.entry_heap, c.ref('self')), c.ref('self')]) for f in DM])},
                   props=('C17', 'C01'),
                   opts={'setup': upd_setup, 'bind_partial': True,
                         'ensures_on_raise': [('C17.views-agree-after-rejection', lambda c: inv_dict(c, c.post, c.ref('self')))]}))


def register5(R):
    """ConfigList._del (shifting loop) and the thin wrappers"""
    lst = lambda: P.node('self', 'ConfigList')
    anyv = lambda n='value': P.val(n, 'any')
    DM = ('$mlen', '$mkeyat', '$mpos', '$mval')
    LM = ('$llen', '$litem')

    def wf_children(c, h, s):
        mm = S.children(h, s)
        kk = z3.Const('!wfk', Val)
        return z3.And(mm.len >= 0, S.FA([kk], z3.And(z3.Select(mm.pos, kk) >= -1, z3.Select(mm.pos, kk) < mm.len), patterns=[z3.Select(mm.pos, kk)]))

    def all_items_nodes(c, h, s):
        p = z3.Int('!np')
        lt = h.l(s)
        return S.FA([p], z3.Implies(z3.And(0 <= p, p < lt.len), z3.And(is_node(c, h, lt.get(p)), r_of(lt.get(p)) > 0)), patterns=[lt.get(p)])

    def norm(i, n):
        return z3.If(i < 0, n + i, i)

    def del_req(c):
        s = c.ref('self')
        return common_req(c, value=None) + [('Inv_views', inv_list(c, c.pre, s)), ('C17.every-entry-is-a-node', all_items_nodes(c, c.pre, s))]

    def shifted(l0, l1, idx, upto, n, tag):
        """l1 is l0 with the items idx+1..upto moved one place down (positions idx..upto-1); the rest untouched"""
        p = z3.Int('!sp' + tag)
        return [('prefix-untouched', S.FA([p], z3.Implies(z3.And(0 <= p, p < idx), l1.get(p) == l0.get(p)), patterns=[l1.get(p)])),
                ('moved-down', S.FA([p], z3.Implies(z3.And(idx <= p, p < upto), l1.get(p) == l0.get(p + 1)), patterns=[l1.get(p)])),
                ('rest-untouched', S.FA([p], z3.Implies(z3.And(upto <= p, p < n), l1.get(p) == l0.get(p)), patterns=[l1.get(p)]))]

    def del_inv(c, L):
        s = c.ref('self')
        l0, l1 = L.entry_heap.l(s), L.heap.l(s)
        n = l0.len
        idx = i_of(L.t('index'))
        return inv_list_parts(c, L.heap, s, 'C14+C15+C17.views') + [('wf', wf_children(c, L.heap, s)), ('same-len', z3.And(l1.len == n, chref(L.heap, s) == chref(L.entry_heap, s))),
                                                        ('index-stable', z3.And(is_int(L.t('index')), 0 <= idx, idx < n)),
                                                        ('nodes', all_items_nodes(c, L.heap, s)),
                                                        ('cls-stable', _cls_stable(L.entry_heap, L.heap))] + shifted(l0, l1, idx, idx + L.i, n, 'i')

    def del_ens(c):
        s = c.ref('self')
        l0, l1 = c.pre.l(s), c.post.l(s)
        n = l0.len
        idx = norm(i_of(c['index']), n)
        p = z3.Int('!dp')
        return inv_list_parts(c, c.post, s, 'C14+C15+C17.views-agree') + [
            ('C17.one-item-fewer', l1.len == n - 1),
            ('C17.items-before-untouched', S.FA([p], z3.Implies(z3.And(0 <= p, p < idx), l1.get(p) == l0.get(p)), patterns=[l1.get(p)])),
            ('C17.items-after-move-down-by-one', S.FA([p], z3.Implies(z3.And(idx <= p, p < n - 1), l1.get(p) == l0.get(p + 1)), patterns=[l1.get(p)])),
            ('C16+C17.returns-the-removed-item', c.rt == l0.get(idx))]

    oob = lambda c: z3.Or(z3.If(i_of(c['index']) < 0, -i_of(c['index']), i_of(c['index'])) > c.pre.l(c.ref('self')).len, i_of(c['index']) == c.pre.l(c.ref('self')).len)
    l_mods = lambda c: [(f, [chref(c.pre, c.ref('self'))]) for f in DM] + [(f, [c.ref('self')]) for f in LM] + flag_mods(c, None)
    R.add(Contract(L + 'ConfigList._del', [lst(), P.val('index', 'int')], requires=del_req, modifies=l_mods, ensures=[('_del', del_ens)],
                   raises=[Raises('IndexError', when=oob, exact=True, name='C17.IndexError-iff-out-of-range')], result=P.val('result', 'any'),
                   loops={0: Loop(del_inv, mod_locals=['i'], mod_fields=FLAGMODS,
                                  mod_at=lambda c, L: [(f, [chref(L.entry_heap, c.ref('self'))]) for f in DM] + [(f, [c.ref('self')]) for f in LM])},
                   props=('C17', 'C16', 'C14', 'C15'),
                   note='removal of a list element (reached from merges that delete an element: C14 "a placeholder deleted by a later stage does not count", C15 repeat-last): both views shifted'))


def _cls_stable(h0, h1):
    r = z3.Int('!cr')
    return S.FA([r], z3.Implies(r > 0, h1.cls(r) == h0.cls(r)))


def register6(R):
    """thin wrappers of ConfigList: executed from their source at call sites, and verified on their own to keep the views equal"""
    lst = lambda: P.node('self', 'ConfigList')
    anyv = lambda n='value': P.val(n, 'any')
    DM = ('$mlen', '$mkeyat', '$mpos', '$mval')
    LM = ('$llen', '$litem')
    for nm in ('__getitem__', '__setitem__', '__delitem__', 'ayns.set_child', 'ayns.remove_child', 'ayns.get_child'):
        R.inline_keys.add(L + 'ConfigList.' + nm)

    def all_items_nodes(c, h, s):
        p = z3.Int('!np')
        lt = h.l(s)
        return S.FA([p], z3.Implies(z3.And(0 <= p, p < lt.len), z3.And(is_node(c, h, lt.get(p)), r_of(lt.get(p)) > 0)), patterns=[lt.get(p)])

    def req(c, value='value'):
        return common_req(c, value=value) + [('Inv_views', inv_list(c, c.pre, c.ref('self'))), ('C17.every-entry-is-a-node', all_items_nodes(c, c.pre, c.ref('self')))]

    mods = lambda c: [(f, [chref(c.pre, c.ref('self'))]) for f in DM] + [(f, [c.ref('self')]) for f in LM] + flag_mods(c, None)
    inv_after = lambda c: inv_list_parts(c, c.post, c.ref('self'))
    keep = {'ensures_on_raise': [('C17.views-agree-after-error', lambda c: inv_list(c, c.post, c.ref('self')))], 'verify_only': True}
    idx = lambda: P.val('index', 'int')
    R.add(Contract(L + 'ConfigList.__setitem__', [lst(), idx(), anyv()], requires=req, modifies=mods, ensures=[('__setitem__', inv_after)],
                   raises=[Raises('IndexError')], props=('C17',), opts=dict(keep)))
    R.add(Contract(L + 'ConfigList.__delitem__', [lst(), idx()], requires=lambda c: req(c, None), modifies=mods, ensures=[('__delitem__', inv_after)],
                   raises=[Raises('IndexError')], props=('C17',), opts=dict(keep)))
    R.add(Contract(L + 'ConfigList.ayns.set_child', [lst(), idx(), anyv()], requires=req, modifies=mods, ensures=[('set_child', inv_after)],
                   props=('C17',), opts=dict(keep)))
    R.add(Contract(L + 'ConfigList.ayns.remove_child', [lst(), idx()], requires=lambda c: req(c, None), modifies=mods,
                   ensures=[('remove_child', lambda c: inv_after(c) + [('C16+C17.returns-the-removed-child', c.rt == c.pre.l(c.ref('self')).get(
                       z3.If(i_of(c['index']) < 0, c.pre.l(c.ref('self')).len + i_of(c['index']), i_of(c['index']))))])],
                   raises=[Raises('IndexError')], result=P.val('result', 'any'), props=('C17', 'C16'), opts=dict(keep)))
    R.add(Contract(L + 'ConfigList.pop', [lst(), idx()], requires=lambda c: req(c, None), modifies=mods,
                   ensures=[('pop', lambda c: inv_after(c) + [('C17.pop-returns-the-removed-item', c.rt == c.pre.l(c.ref('self')).get(
                       z3.If(i_of(c['index']) < 0, c.pre.l(c.ref('self')).len + i_of(c['index']), i_of(c['index'])))),
                                                             ('C17.one-item-fewer', c.post.l(c.ref('self')).len == c.pre.l(c.ref('self')).len - 1)])],
                   raises=[Raises('IndexError')], result=P.val('result', 'any'), props=('C17',), opts=dict(keep)))
    R.add(Contract(L + 'ConfigList.remove', [lst(), anyv()], requires=lambda c: req(c, None), modifies=mods, ensures=[('remove', inv_after)],
                   raises=[Raises('ValueError')], props=('C17',), opts=dict(keep)))

    # extend: loop over the other sequence
    def ext_inv(c, Lx):
        s = c.ref('self')
        l0, l1 = Lx.entry_heap.l(s), Lx.heap.l(s)
        p = z3.Int('!ep')
        lo = Lx.entry_heap.l(c.ref('other'))
        return inv_list_parts(c, Lx.heap, s, 'views') + [
            ('wf', _wf_children(c, Lx.heap, s)), ('grown', z3.And(l1.len == l0.len + Lx.i, chref(Lx.heap, s) == chref(Lx.entry_heap, s))),
            ('old-items-untouched', S.FA([p], z3.Implies(z3.And(0 <= p, p < l0.len), l1.get(p) == l0.get(p)), patterns=[l1.get(p)])),
            ('new-items-are-nodes-in-order', S.FA([p], z3.Implies(z3.And(0 <= p, p < Lx.i), z3.And(is_node(c, Lx.heap, l1.get(l0.len + p)),
                                                  z3.Implies(is_node(c, Lx.entry_heap, lo.get(p)), l1.get(l0.len + p) == lo.get(p)))), patterns=[l1.get(l0.len + p)])),
            ('cls-stable', _cls_stable(Lx.entry_heap, Lx.heap)),
            ('other-untouched', Lx.heap.l(c.ref('other')).eq(lo))]

    def ext_ens(c):
        s = c.ref('self')
        l0, l1 = c.pre.l(s), c.post.l(s)
        lo = c.pre.l(c.ref('other'))
        p = z3.Int('!ep')
        return inv_list_parts(c, c.post, s) + [
            ('C16+C17.grows-by-the-given-items', l1.len == l0.len + lo.len),
            ('C16+C17.old-items-keep-place-and-identity', S.FA([p], z3.Implies(z3.And(0 <= p, p < l0.len), l1.get(p) == l0.get(p)), patterns=[l1.get(p)])),
            ('C16+C17.new-items-follow-in-order', S.FA([p], z3.Implies(z3.And(0 <= p, p < lo.len), z3.And(is_node(c, c.post, l1.get(l0.len + p)),
                                                         z3.Implies(is_node(c, c.pre, lo.get(p)), l1.get(l0.len + p) == lo.get(p)))), patterns=[l1.get(l0.len + p)]))]

    R.add(Contract(L + 'ConfigList.extend', [lst(), P.list('other')],
                   requires=lambda c: common_req(c, value=None) + [('Inv_views', inv_list(c, c.pre, c.ref('self'))), ('other-len', c.pre.l(c.ref('other')).len >= 0),
                                                                   ('other-apart', z3.And(c.ref('other') != c.ref('self'), c.ref('other') != chref(c.pre, c.ref('self'))))],
                   modifies=mods, ensures=[('extend', ext_ens)], props=('C17', 'C16'),
                   loops={0: Loop(ext_inv, mod_locals=['val'], mod_fields=FLAGMODS,
                                  mod_at=lambda c, Lx: [(f, [chref(Lx.entry_heap, c.ref('self'))]) for f in DM] + [(f, [c.ref('self')]) for f in LM])}))


def _wf_children(c, h, s):
    mm = S.children(h, s)
    kk = z3.Const('!wfk', Val)
    return z3.And(mm.len >= 0, S.FA([kk], z3.And(z3.Select(mm.pos, kk) >= -1, z3.Select(mm.pos, kk) < mm.len), patterns=[z3.Select(mm.pos, kk)]))
