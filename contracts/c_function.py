"""C13: argument resolution of !call / !bind (FunctionNode._resolve_args) - verified per SHAPE of the argument
mapping and of the target signature (shapes are enumerated up to a stated bound, the argument VALUES are symbolic)."""
import itertools
import z3
from pyvc import sym
from pyvc.sym import Val, is_none, is_int, is_str, is_ref, i_of, r_of, mk_int, mk_str, MapT, ListT
from pyvc.contract import Contract, P, Raises, Loop
from pyvc.values import SV
from . import spec as S

F = 'awesomeyaml/nodes/function.py::'
PO, PK, VP, KO, VK = 0, 1, 2, 3, 4       # inspect.Parameter kinds
SIGS = {
    'f(a,b,c)': [('a', PK), ('b', PK), ('c', PK)],
    'f(a,/,b)': [('a', PO), ('b', PK)],
    'f(a,*args,k)': [('a', PK), ('args', VP), ('k', KO)],
    'f(a,*,k)': [('a', PK), ('k', KO)],
    'f(a,**kw)': [('a', PK), ('kw', VK)],
    'f()': [],
}
KEYSETS = [ks for n in range(0, 4) for ks in itertools.combinations([0, 1, 2, 3, 'a', 'k'], n)]


def positional_names(sig):
    out = []
    for nm, k in sig:
        if k not in (PO, PK):
            break
        out.append(nm)
    return out


def register(R):
    R.constants.update({'inspect.Parameter.POSITIONAL_ONLY': PO, 'inspect.Parameter.POSITIONAL_OR_KEYWORD': PK, 'inspect.Parameter.VAR_POSITIONAL': VP,
                        'inspect.Parameter.KEYWORD_ONLY': KO, 'inspect.Parameter.VAR_KEYWORD': VK})

    def signature(it, a, kw, n, fr):
        return SV(it.heap.get('$sig', sym.r_of(it.sv(a[0], n).t)), hint=frozenset(['Signature']))
    R.opaque['inspect.signature'] = signature

    def make(signame, sig, keys):
        def setup(it, fr, sc):
            run = it.run
            # the target: an object with a signature (inspect.signature is assumed to report the declared parameters in order)
            f = run.alloc('function')
            sg = run.alloc('Signature')
            pd = run.alloc('dict')
            m = MapT.empty()
            for nm, k in sig:
                po = run.alloc('Parameter')
                it.heap.put('name', po, mk_str(nm))
                it.heap.put('kind', po, mk_int(k))
                m = it.map_set_simpl(m, mk_str(nm), sym.mk_ref(po))
            it.heap.put_m(pd, m)
            it.heap.put('parameters', sg, sym.mk_ref(pd))
            it.heap.put('$sig', f, sym.mk_ref(sg))
            fr.loc['func'] = SV(sym.mk_ref(f), hint=frozenset(['function']))
            # the evaluated arguments: this shape, symbolic values
            ad = run.alloc('dict')
            am = MapT.empty()
            vals = {}
            for k in keys:
                t = run.fresh(f'arg_{k}')
                vals[k] = t
                am = it.map_set_simpl(am, sym.const_to_val(k), t)
            it.heap.put_m(ad, am)
            fr.loc['args'] = SV(sym.mk_ref(ad), hint=frozenset(['dict']))
            it.spec_extra['vals'] = vals
            it.spec_extra['args_ref'] = ad

        pos = positional_names(sig)
        ints = sorted(k for k in keys if isinstance(k, int))
        strs = [k for k in keys if isinstance(k, str)]
        m = 0
        while m in ints:
            m += 1
        rest = [i for i in ints if i >= m]
        bad = [i for i in rest if i >= len(pos)]

        def ens(c):
            vals = c.x['vals']
            up, kwp, kw = c.res.items
            out = []
            if not ints:
                lu = c.post.l(r_of(up.t))
                out.append(('C13.no-positions:everything-is-passed-by-name', z3.And(lu.len == 0, c.post.m(r_of(kwp.t)).len == 0, kw.t == sym.mk_ref(c.x['args_ref']))))
                return out
            lu = c.post.l(r_of(up.t))
            out.append(('C13.positions-0..m-1-are-passed-positionally-in-order', z3.And(lu.len == m, *[lu.get(i) == vals[i] for i in range(m)])))
            mk = c.post.m(r_of(kwp.t))
            out.append(('C13.a-position-after-a-gap-is-bound-to-the-name-of-that-positional-parameter',
                        z3.And(mk.len == len(rest), *[z3.And(mk.has(mk_str(pos[i])), mk.get(mk_str(pos[i])) == vals[i]) for i in rest])))
            ms = c.post.m(r_of(kw.t))
            out.append(('C13.named-arguments-pass-through', z3.And(ms.len == len(strs), *[z3.And(ms.has(mk_str(k)), ms.get(mk_str(k)) == vals[k]) for k in strs])))
            return out

        def replay_direct(repo, obl_name):
            # the real function on a real target with this signature and this argument shape
            import importlib
            fn = importlib.import_module('awesomeyaml.nodes.function').FunctionNode._resolve_args
            src = {'f(a,b,c)': 'def f(a,b,c): pass', 'f(a,/,b)': 'def f(a,/,b): pass', 'f(a,*args,k)': 'def f(a,*args,k): pass', 'f(a,*,k)': 'def f(a,*,k): pass',
                   'f(a,**kw)': 'def f(a,**kw): pass', 'f()': 'def f(): pass'}[signame]
            ns = {}
            exec(src, ns)
            args = {k: f'v{k}' for k in keys}
            try:
                res = fn(ns['f'], dict(args))
                out = ('ok', res)
            except Exception as e:
                out = ('err', type(e).__name__)
            if bad:
                viol = out != ('err', 'ValueError')
                exp = 'ValueError (position(s) %r lie beyond the positional parameters %r)' % (bad, pos)
            else:
                exp_res = ([args[i] for i in range(m)], {pos[i]: args[i] for i in rest}, {k: args[k] for k in strs}) if ints else ([], {}, args)
                viol = out[0] != 'ok' or (list(out[1][0]), dict(out[1][1]), dict(out[1][2])) != exp_res
                exp = repr(exp_res)
            return {'verdict': 'violates' if viol else 'holds', 'detail': f'{src}; args={args}: real call gave {out!r}, expected {exp}', 'input': {'signature': src, 'args': {str(k): v for k, v in args.items()}}}

        return Contract(F + 'FunctionNode._resolve_args', [], name=f'{signame} keys={list(keys)}',
                        ensures=[('resolve', ens)] if not bad else [],
                        raises=[Raises('ValueError', when=lambda c: z3.BoolVal(bool(bad)), exact=True, name='C13.a-position-beyond-the-positional-parameters-is-an-error')],
                        modifies=lambda c: [], props=('C13',),
                        opts={'setup': setup, 'bind_partial': True, 'verify_only': True, 'no_search': True, 'no_frame': True, 'group': 'resolve_args', 'replay_direct': replay_direct},
                        note='bounded in SHAPE (keys subset of {0,1,2,3,a,k} of size <= 3, six signatures), unbounded in the argument values')

    for signame, sig in SIGS.items():
        for keys in KEYSETS:
            R.add(make(signame, sig, keys))


def register_merge_table(R):
    """FunctionNode.on_merge_impl: the documented merge table (C13), one level; flag combination and the key-wise merge are abstract here"""
    N = 'awesomeyaml/nodes/node.py::'
    C = 'awesomeyaml/nodes/composed.py::'
    D = 'awesomeyaml/nodes/dict.py::'
    from .c_containers import USE_VIEWS, inv_dict, chref
    NODEF = ['_priority', '_delete', '_allow_new', '_safe', '_implicit_delete', '_implicit_allow_new', '_implicit_safe', '_default_safe', '_metadata',
             '_pyyaml_node', '_children', '$mlen', '$mkeyat', '$mpos', '$mval', '$llen', '$litem', '$pset', '_func']
    R.add(Contract(D + 'ConfigDict.ayns.on_merge_impl', [P.node('self', 'ConfigDict'), P.path('prefix'), P.node('other', 'ConfigNode')], name='abstract', assume_only=True,
                   effects=[('composed-merge',)], modifies=lambda c: [(f, 'all') for f in NODEF], raises=[Raises('MergeError'), Raises('ValueError'), Raises('TypeError')],
                   result=P.node('result', 'ConfigNode', maybe_fresh=True), props=('C13',), opts={'callee': False},
                   note='key-wise merge of the arguments (ComposedNode.on_merge_impl): abstract here, see C02/C04'))
    USE = dict(USE_VIEWS)
    USE.update({D + 'ConfigDict.ayns.on_merge_impl': 'abstract'})
    # the flag combination helpers are executed from their source here (after clear() the receiver has no children, so the
    # propagation loop inside _replace_self runs zero times)
    INLINE = [N + 'ConfigNode._replace_self', N + 'ConfigNode._replace_other', C + 'ComposedNode._propagate_implicit_values']

    def is_strnode(c, h, r):
        return c.eng.isinstance_term(h.cls(r), 'str')

    def other_wins(c):
        return S.prio(c.pre, c.ref('other')) >= S.prio(c.pre, c.ref('self'))

    def new_target(c):
        fo = c.pre.get('_func', c.ref('other'))
        return z3.And(z3.Not(sym.is_undef(fo)), c.pre.get('_func', c.ref('self')) != fo)

    def ens(c):
        s, o = c.ref('self'), c.ref('other')
        st = is_strnode(c, c.pre, o)
        m0, m1 = S.children(c.pre, s), S.children(c.post, s)
        f0, f1 = c.pre.get('_func', s), c.post.get('_func', s)
        return [('C13.string-not-outranked:target-replaced-and-arguments-dropped', z3.Implies(z3.And(st, other_wins(c)), z3.And(f1 == c['other'], m1.len == 0, c.post.m(s).len == 0, c.rt == c['self']))),
                ('C13.string-outranked:target-and-arguments-kept', z3.Implies(z3.And(st, z3.Not(other_wins(c))), z3.And(f1 == f0, m1.eq(m0), c.rt == c['self']))),
                ('C13.other-target-outranked:ignored', z3.Implies(z3.And(z3.Not(st), new_target(c), z3.Not(other_wins(c))), z3.And(f1 == f0, m1.eq(m0), c.rt == c['self']))),
                # the node that survives these three rows is the receiver: it may stay safe only if BOTH inputs were safe (the flag
                # combination has to be applied to the survivor, with the absorbed node as its argument)
                ('C07.function-node-absorbing-a-name-or-an-outranked-target-stays-safe-only-if-both-were',
                 z3.Implies(z3.Or(st, z3.And(new_target(c), z3.Not(other_wins(c)))),
                            z3.Implies(S.safe(c.post, s), z3.And(S.safe(c.pre, s), S.safe(c.pre, o)))))]

    def gate_merge(sc, kw):
        # when a different target takes over and the newer node deletes, the old arguments are gone BEFORE the key-wise merge
        s, o = sc.ref('self'), sc.ref('other')
        h = kw['heap']
        took_over = z3.And(new_target(sc), other_wins(sc))
        return z3.And(z3.Implies(z3.And(took_over, S.delete_eff(sc.eng, sc.pre, o)), z3.And(S.children(h, s).len == 0, h.m(s).len == 0)),
                      z3.Implies(took_over, h.get('_func', s) == sc.pre.get('_func', o)),
                      z3.Implies(z3.Not(new_target(sc)), z3.And(h.get('_func', s) == sc.pre.get('_func', s), S.children(h, s).eq(S.children(sc.pre, s)))))

    def req(c):
        s, o = c.ref('self'), c.ref('other')
        from .c_containers import common_req
        return common_req(c, value=None) + [('valid', z3.And(S.valid_flags(c.pre, s), S.valid_flags(c.pre, o))), ('Inv_views', inv_dict(c, c.pre, s)),
                                            ('apart', z3.And(s != o, chref(c.pre, s) != o)),
                                            ('function-node-has-a-target', z3.Or(is_str(c.pre.get('_func', s)), is_ref(c.pre.get('_func', s)))),
                                            ('other-target-is-a-name-or-callable', z3.Or(sym.is_undef(c.pre.get('_func', o)), is_str(c.pre.get('_func', o)), is_ref(c.pre.get('_func', o))))]

    R.add(Contract(F + 'FunctionNode.ayns.on_merge_impl', [P.node('self', ['CallNode', 'BindNode']), P.path('prefix'), P.node('other', 'ConfigNode')],
                   requires=req, modifies=lambda c: [(f, 'all') for f in NODEF], ensures=[('table', ens)],
                   raises=[Raises('MergeError'), Raises('ValueError'), Raises('TypeError')], result=P.node('result', 'ConfigNode', maybe_fresh=True),
                   props=('C13', 'C07'), inline=INLINE, opts={'use': USE, 'no_search': True, 'gates': {'composed-merge': gate_merge}, 'no_frame': True},
                   note='merge table of function nodes: string / other target / same target; the argument merge itself is the composed merge'))


def register_promotion(R):
    """ConfigNode._maybe_promote, the DECISION only (C13): when a plain mapping takes the place of a function node at the end of a merge
    (`Call <- !del mapping`, `Bind <- mapping`), the node that survives is the function node (it keeps its target and takes the
    mapping's content); a function node taking the place of a plain mapping stays itself.  What is copied into the promoted node is
    not decided here (bounded merge families)."""
    N = 'awesomeyaml/nodes/node.py::'
    NODEF = ['_priority', '_delete', '_allow_new', '_safe', '_implicit_delete', '_implicit_allow_new', '_implicit_safe', '_default_safe', '_metadata',
             '_pyyaml_node', '_children', '$mlen', '$mkeyat', '$mpos', '$mval', '$llen', '$litem', '$pset', '_func', '$dict']
    cases = [('plain-mapping-replaces-function-node', ['ConfigDict'], ['CallNode', 'BindNode'], 'other'),
             ('function-node-replaces-plain-mapping', ['CallNode', 'BindNode'], ['ConfigDict'], 'self'),
             ('same-class', ['ConfigDict'], ['ConfigDict'], 'self')]
    for nm, scls, ocls, who in cases:
        R.add(Contract(N + 'ConfigNode._maybe_promote', [P.node('self', scls), P.node('other', ocls)], name=nm,
                       requires=lambda c: [('distinct', c.ref('self') != c.ref('other'))],
                       modifies=lambda c: [(f, 'all') for f in NODEF],
                       ensures=[('C13.surviving-node-of-a-promotion:' + nm, (lambda c, who=who: c.rt == c[who]))],
                       raises=[Raises('Exception')], result=P.val('result', 'any'), props=('C13',),
                       opts={'no_search': True, 'no_frame': True, 'verify_only': True, 'skip_kinds': ('pre', 'safety'), 'assume_children_are_objects': True},
                       note='which of the two nodes is returned; callee preconditions of the copying steps are not obligations of this instance'))


def _reg_all(R):
    register(R)
    register_merge_table(R)
    register_promotion(R)
