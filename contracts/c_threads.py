"""C20: per-thread parse-time state.  Sequential save/restore contracts of the three thread-local slots plus structural
ownership obligations (the slots are threading.local instances, written only by their managers).  Interleavings are not
explored: independence of schedules follows from thread confinement of threading.local (trusted) and per-thread builders."""
import ast
import z3
from pyvc import sym
from pyvc.sym import Val, is_none, is_bool, is_undef, is_ref, b_of, r_of, mk_bool
from pyvc.contract import Contract, P, Raises, Loop
from pyvc.values import SV, ExcV, NONE, OpaqueV
from pyvc.core import RaiseEx
from pyvc.tasks import Structural
from . import spec as S

N = 'awesomeyaml/nodes/node.py::'
ER = 'awesomeyaml/errors.py::'
ZERO = z3.IntVal(0)
FN_SLOT = '$slot:ConfigNode._default_filename'
SAFE_SLOT = '$slot:ConfigNode._default_safe'
API_SLOT = '$slot:awesomeyaml/errors.py:_api_entered'


def slot(h, name):
    return h.get(name, ZERO)


def register(R):
    # ---- the two parse-time defaults -----------------------------------------------------------------------
    def body_any(check):
        def body(it, fr, v):
            it.run.event('with-body', lineno=None, heap=it.heap.snapshot(), index=len(it.run.events))
            k = it.run.choose(2, 'with-body')
            if k == 1:
                raise RaiseEx(ExcV('ValueError'))
        return body

    def old_or(h, name, default):
        t = slot(h, name)
        return z3.If(is_undef(t), default, t)

    R.add(Contract(N + 'ConfigNode.default_filename', [P.val('filename', 'optstr')], name='default',
                   modifies=lambda c: [(FN_SLOT, [ZERO])], raises=[Raises('ValueError')], props=('C20', 'C06'),
                   ensures=[('C20.previous-file-name-restored-on-normal-exit', lambda c: slot(c.post, FN_SLOT) == old_or(c.pre, FN_SLOT, sym.NONE))],
                   opts={'cm_body': body_any(None), 'verify_only': True, 'no_search': True,
                         'gates': {'with-body': lambda sc, kw: slot(kw['heap'], FN_SLOT) == sc['filename']},
                         'ensures_on_raise': [('C20.previous-file-name-restored-on-exceptional-exit', lambda c: slot(c.post, FN_SLOT) == old_or(c.pre, FN_SLOT, sym.NONE))]},
                   note='inside the block the slot holds the given file name; on every exit the previous value is back'))
    R.add(Contract(N + 'ConfigNode.default_safe_flag', [P.val('value', 'bool')], name='default',
                   requires=lambda c: [('slot-holds-a-bool-or-is-unset', z3.Or(is_undef(slot(c.pre, SAFE_SLOT)), is_bool(slot(c.pre, SAFE_SLOT))))],
                   modifies=lambda c: [(SAFE_SLOT, [ZERO])], raises=[Raises('ValueError')], props=('C20', 'C07'),
                   ensures=[('C20.previous-safety-default-restored-on-normal-exit', lambda c: slot(c.post, SAFE_SLOT) == old_or(c.pre, SAFE_SLOT, sym.TRUE))],
                   opts={'cm_body': body_any(None), 'verify_only': True, 'no_search': True,
                         'gates': {'with-body': lambda sc, kw: z3.And(is_bool(slot(kw['heap'], SAFE_SLOT)),
                                                                     b_of(slot(kw['heap'], SAFE_SLOT)) == z3.And(b_of(sc['value']), b_of(old_or(sc.pre, SAFE_SLOT, sym.TRUE))))},
                         'ensures_on_raise': [('C20.previous-safety-default-restored-on-exceptional-exit', lambda c: slot(c.post, SAFE_SLOT) == old_or(c.pre, SAFE_SLOT, sym.TRUE))]},
                   note='C07: an unsafe enclosing default can never be made safe by a nested block (value AND old)'))

    # ---- ConfigNode.__init__ takes file name and safety default from its arguments or from the slots ---------
    def init_ens(c):
        s = c.ref('self')
        fn = slot(c.pre, FN_SLOT)
        return [('C20.source-file-from-argument-else-from-this-threads-slot', c.post.get('_source_file', s) == z3.If(is_none(c['source_file']), z3.If(is_undef(fn), sym.NONE, fn), c['source_file'])),
                ('C20+C07.safety-default-from-this-threads-slot-else-unsafe', c.post.get('_default_safe', s) == z3.If(is_undef(slot(c.pre, SAFE_SLOT)), sym.FALSE, slot(c.pre, SAFE_SLOT))),
                ('C07.explicit-safe-flag-recorded', c.post.get('_safe', s) == c['safe']),
                ('C03.priority-recorded', c.post.get('_priority', s) == c['priority']),
                ('C04.delete-recorded', z3.And(c.post.get('_delete', s) == c['delete'], c.post.get('_implicit_delete', s) == c['implicit_delete'])),
                ('C08.allow_new-recorded', z3.And(c.post.get('_allow_new', s) == c['allow_new'], c.post.get('_implicit_allow_new', s) == c['implicit_allow_new'])),
                ('C07.implicit-safe-recorded', c.post.get('_implicit_safe', s) == c['implicit_safe'])]

    FLD = ['_idx', '_priority', '_delete', '_allow_new', '_implicit_delete', '_implicit_allow_new', '_source_file', '_metadata', '_pyyaml_node', '_safe', '_implicit_safe', '_default_safe']
    R.add(Contract(N + 'ConfigNode.__init__', [P.node('self', 'ConfigNode'), P.val('idx', 'any'), P.val('priority', 'optint'), P.val('delete', 'optbool'), P.val('allow_new', 'optbool'),
                                               P.val('safe', 'optbool'), P.const('metadata', None), P.val('source_file', 'optstr'), P.val('implicit_delete', 'optbool'),
                                               P.val('implicit_allow_new', 'optbool'), P.val('implicit_safe', 'optbool'), P.const('pyyaml_node', None)],
                   requires=lambda c: [('priority-in-range', z3.Or(is_none(c['priority']), z3.And(sym.i_of(c['priority']) >= -1, sym.i_of(c['priority']) <= 1)))],
                   modifies=lambda c: [(f, [c.ref('self')]) for f in FLD], ensures=[('init', init_ens)], props=('C20', 'C07', 'C03', 'C04', 'C08'),
                   opts={'no_search': True}, note='a new node records its flags as given and its origin from the constructing thread only'))

    # ---- api_entry ------------------------------------------------------------------------------------------
    def api_fn(it, a, kw, n):
        it.run.event('wrapped-call', lineno=None, heap=it.heap.snapshot(), index=len(it.run.events))
        k = it.run.choose(3, 'wrapped-fn')
        if k == 1:
            raise RaiseEx(ExcV('MergeError', fields={'error_msg': NONE, 'node': NONE, 'path': NONE, 'extra_node': NONE, 'note': NONE}))
        if k == 2:
            raise RaiseEx(ExcV('KeyError'))
        return SV(it.run.fresh('fnres'))

    def api_setup(it, fr, sc):
        from pyvc.interp import Frame
        outer = Frame(it.repo.func(ER + 'api_entry'), defcls=None)
        outer.loc['fn'] = OpaqueV('callable', api_fn)
        fr.closure = outer
        from pyvc.values import TupleV
        fr.loc['args'] = TupleV([])
        r = it.run.alloc('dict')
        from pyvc.sym import MapT
        it.heap.put_m(r, MapT.empty())
        fr.loc['kwargs'] = SV(sym.mk_ref(r), hint=frozenset(['dict']))

    def entered(h):
        t = slot(h, API_SLOT)
        return z3.And(is_bool(t), b_of(t))

    def gate_call(sc, kw):
        # during the wrapped call the marker is set (either by an enclosing API call of this thread, or by this one)
        outer = entered(sc.pre)
        return z3.Implies(z3.Not(outer), entered(kw['heap']))

    R.add(Contract(ER + 'api_entry.impl', [], name='default',
                   requires=lambda c: [('marker', z3.Or(is_undef(slot(c.pre, API_SLOT)), is_bool(slot(c.pre, API_SLOT))))],
                   modifies=lambda c: [(API_SLOT, [ZERO])], raises=[Raises('MergeError', name='C20.library-errors-keep-their-class'), Raises('KeyError')],
                   ensures=[('C20.marker-false-after-an-outermost-call-unchanged-after-a-nested-one',
                             lambda c: z3.If(entered(c.pre), slot(c.post, API_SLOT) == slot(c.pre, API_SLOT), slot(c.post, API_SLOT) == sym.FALSE))],
                   result=P.val('result', 'any'), props=('C20',),
                   opts={'setup': api_setup, 'bind_partial': True, 'verify_only': True, 'no_search': True, 'gates': {'wrapped-call': gate_call},
                         'symbolic_globals': ('$global:awesomeyaml/errors.py:rethrow', '$global:awesomeyaml/errors.py:shorten_traceback', '$global:awesomeyaml/errors.py:include_original_exception'),
                         'ensures_on_raise': [('C20.marker-reset-on-exceptional-exit',
                                               lambda c: z3.If(entered(c.pre), slot(c.post, API_SLOT) == slot(c.pre, API_SLOT), slot(c.post, API_SLOT) == sym.FALSE))]},
                   note='the wrapped function is arbitrary (returns, raises a library error, raises something else)'))

    # ---- ownership (structural) -------------------------------------------------------------------------------
    def ownership(eng):
        out = []
        node = eng.repo.classes['ConfigNode']
        for nm in ('_default_filename', '_default_safe'):
            e = node.consts.get(nm)
            ok = isinstance(e, ast.Call) and ast.unparse(e.func) == 'threading.local'
            out.append((f'C20.ConfigNode.{nm}-is-a-threading.local-instance', ok, ast.unparse(e) if e is not None else 'missing'))
        em = eng.repo.modules['awesomeyaml/errors.py']
        e = em.consts.get('_api_entered')
        out.append(('C20.errors._api_entered-is-a-threading.local-instance', isinstance(e, ast.Call) and ast.unparse(e.func) == 'threading.local', ast.unparse(e) if e is not None else 'missing'))
        # the slots are never rebound and their .value is stored only inside the three managers
        allowed = {'_default_filename': {'ConfigNode.default_filename'}, '_default_safe': {'ConfigNode.default_safe_flag'}, '_api_entered': {'api_entry.impl'}}
        bad_rebind, bad_store = [], []
        for key, fi in eng.repo.funcs.items():
            for n in ast.walk(fi.node):
                if isinstance(n, (ast.Assign, ast.AugAssign)):
                    tg = n.targets if isinstance(n, ast.Assign) else [n.target]
                    for t in tg:
                        src = ast.unparse(t)
                        for slotname, owners in allowed.items():
                            # rebinding the slot itself: `ConfigNode._default_safe = ...`, `cls._default_safe = ...`, a module-level `_api_entered = ...`
                            # (`self._default_safe = ...` sets the per-node INSTANCE attribute of the same name, not the slot)
                            if src in (f'ConfigNode.{slotname}', f'cls.{slotname}', f'type(self).{slotname}', f'errors.{slotname}') or (src == slotname and slotname == '_api_entered'):
                                bad_rebind.append(f'{key}: {src}')
                            if src.endswith(slotname + '.value') and not any(fi.qualname == o or fi.qualname.startswith(o + '.') or o.startswith(fi.qualname + '.') for o in owners):
                                bad_store.append(f'{key}: {src}')
        out.append(('C20.slots-are-never-rebound', not bad_rebind, '; '.join(bad_rebind) or 'no assignment to a slot name in any function'))
        out.append(('C20.slot-values-are-written-only-by-their-managers', not bad_store, '; '.join(bad_store) or 'only default_filename / default_safe_flag / api_entry.impl store .value'))
        # builder state used while parsing lives in the builder instance (self._current_file, self._current_stage, self.stages)
        bm = eng.repo.modules['awesomeyaml/builder.py']
        glob = [ast.unparse(n) for fi in eng.repo.funcs.values() if fi.module is bm for n in ast.walk(fi.node) if isinstance(n, ast.Global)]
        out.append(('C20.builder-keeps-no-module-level-state', not glob, '; '.join(glob) or 'no global statement in builder.py'))
        return out
    R.tasks.append(Structural('structural:C20-slot-ownership', ('C20',), ownership,
                              note='thread confinement: per-thread state is held in threading.local instances written only by their managers; everything else is builder-instance state'))
