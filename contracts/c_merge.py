"""Contracts around the composed merge: the pruning predicates (path relativity, C04/C05), dominance of the
new-key check (C08), walk / lookup helpers."""
import z3
from pyvc import sym
from pyvc.sym import Val, is_none, is_bool, is_int, is_ref, b_of, i_of, r_of, mk_bool
from pyvc.contract import Contract, P, Raises, Loop
from pyvc.values import SV, PathV, OpaqueV
from . import spec as S

C = 'awesomeyaml/nodes/composed.py::'
L = 'awesomeyaml/nodes/list.py::'
N = 'awesomeyaml/nodes/node.py::'
GFN = C + 'ComposedNode.ayns.get_first_not_missing_node'


def _path_arg(c):
    p = c.a['path']
    if isinstance(p, PathV):
        return p.s
    return p.items[0].s


def register(R):
    # get_first_not_missing_node: the node at `path` below self, or its nearest existing ancestor (ghost function of
    # the receiver and the path: which node that is depends only on the subtree of the receiver)
    Nearest = z3.Function('Nearest', sym.I, sym.PathSort, sym.I)
    R.add(Contract(GFN, [P.node('self', 'ComposedNode'), P.path('path')], name='abstract', assume_only=True, pure=True,
                   ensures=[('nearest', lambda c: z3.And(is_ref(c.rt), r_of(c.rt) == Nearest(c.ref('self'), _path_arg(c)), S.valid_flags(c.post, r_of(c.rt))))],
                   result=P.node('result', 'ConfigNode', symbolic_ref=True), props=('C04', 'C05'),
                   note='lookup of the nearest existing node along a path (via _get_node); abstracted as a function of receiver and path'))

    # ---- maybe_keep (closure in ComposedNode.on_merge_impl) -------------------------------------------------
    def mk_setup(it, fr, sc):
        # closure environment: `other` (the newer node) and the outer `path` (where the two nodes being merged live)
        from pyvc.interp import Frame
        outer = Frame(it.repo.func(C + 'ComposedNode.ayns.on_merge_impl'), defcls=it.repo.classes['ComposedNode'])
        outer.loc['other'] = it.spec_args['$other']
        outer.loc['path'] = it.spec_args['$outer_path']
        outer.loc['self'] = it.spec_args['$self']
        outer.loc['prefix_len'] = SV(sym.mk_int(z3.Length(it.spec_args['$outer_path'].s)))
        fr.closure = outer
        # filter_nodes calls the predicate with prefix + (path of `node` relative to the older node)
        names = [a.arg for a in it.top_fi.node.args.args]       # bound by position: robust against renamed parameters
        fr.loc[names[0]] = PathV(z3.Concat(it.spec_args['$outer_path'].s, it.spec_args['$rel'].s))
        fr.loc[names[1]] = it.spec_args['node']

    def gate_lookup(sc, kw):
        # the path looked up inside the NEWER node must be the path of `node` relative to the nodes being merged:
        # the same relative position in the newer subtree, whatever the nodes' own location in the document is
        arg = kw['args'][1]
        recv = kw['args'][0]
        return z3.And(arg.s == sc.a['$rel'].s, recv.t == sc['$other']) if isinstance(arg, PathV) else z3.BoolVal(False)

    R.add(Contract(C + 'ComposedNode.ayns.on_merge_impl.maybe_keep',
                   [P.node('node', 'ConfigNode'), P.node('$other', 'ComposedNode'), P.node('$self', 'ComposedNode'), P.path('$outer_path'), P.path('$rel')],
                   requires=lambda c: z3.And(S.valid_flags(c.pre, c.ref('node')), S.valid_flags(c.pre, c.ref('$other')), z3.Length(c.a['$rel'].s) >= 1),
                   pure=True, props=('C04', 'C05'),
                   ensures=[('C04.older-entry-survives-only-if-strictly-stronger-than-its-counterpart',
                             lambda c: b_of(c.rt) == (S.prio(c.pre, c.ref('node')) > S.prio(c.pre, Nearest(c.ref('$other'), c.a['$rel'].s))))],
                   opts={'setup': mk_setup, 'bind_partial': True, 'watch': {GFN: 'lookup'}, 'use': {GFN: 'abstract'},
                         'gates': {'lookup': gate_lookup}, 'no_search': True},
                   note='pruning predicate of a deleting merge: compares an older descendant with the node at the SAME RELATIVE path in the newer subtree'))

    # ---- keep_if_exists (closure in ConfigList.on_merge_impl) ------------------------------------------------
    def ke_setup(it, fr, sc):
        from pyvc.interp import Frame
        outer = Frame(it.repo.func(L + 'ConfigList.ayns.on_merge_impl'), defcls=it.repo.classes['ConfigList'])
        outer.loc['self'] = it.spec_args['$self']
        outer.loc['other'] = it.spec_args['$other']
        fr.closure = outer
        # other.ayns.filter_nodes(keep_if_exists) is called without prefix: paths are relative to the newer node
        names = [a.arg for a in it.top_fi.node.args.args]
        fr.loc[names[0]] = it.spec_args['$rel']
        fr.loc[names[1]] = it.spec_args['node']

    def gate_lookup2(sc, kw):
        arg = kw['args'][1]
        recv = kw['args'][0]
        return z3.And(arg.s == sc.a['$rel'].s, recv.t == sc['$self']) if isinstance(arg, PathV) else z3.BoolVal(False)

    R.add(Contract(L + 'ConfigList.ayns.on_merge_impl.keep_if_exists',
                   [P.node('node', 'ConfigNode'), P.node('$other', 'ComposedNode'), P.node('$self', 'ConfigList'), P.path('$rel')],
                   requires=lambda c: z3.And(S.valid_flags(c.pre, c.ref('node')), S.valid_flags(c.pre, c.ref('$self')), z3.Length(c.a['$rel'].s) >= 1),
                   pure=True, props=('C04', 'C05'),
                   ensures=[('C04.deleting-newer-entry-kept-iff-not-outranked-by-older-counterpart',
                             lambda c: b_of(c.rt) == z3.Or(z3.Not(S.delete_eff(c.eng, c.pre, c.ref('node'))),
                                                           S.prio(c.pre, c.ref('node')) >= S.prio(c.pre, Nearest(c.ref('$self'), c.a['$rel'].s))))],
                   opts={'setup': ke_setup, 'bind_partial': True, 'watch': {GFN: 'lookup'}, 'use': {GFN: 'abstract'},
                         'gates': {'lookup': gate_lookup2}, 'no_search': True}))


# ---------------------------------------------------------------------------------------------------------------
# ComposedNode.on_merge_impl: dominance of the new-key check (C08).  The callees are used through frame-level /
# abstract contracts; what is decided here is the ORDER of operations on every path through one iteration of the
# key loop: a key that the older mapping does not have is adopted only after `_require_all_new` has returned for
# the adopted subtree.  (The functional one-level contract of this function is covered by the bounded stand-ins.)
def register_dominance(R):
    D = 'awesomeyaml/nodes/dict.py::'
    anyall = lambda fields: (lambda c: [(f, 'all') for f in fields])
    NODEF = ['_priority', '_delete', '_allow_new', '_safe', '_implicit_delete', '_implicit_allow_new', '_implicit_safe', '_default_safe', '_metadata',
             '_pyyaml_node', '_children', '$mlen', '$mkeyat', '$mpos', '$mval', '$llen', '$litem', '$pset', '_func']
    # abstract contracts (assumed) of the recursive call and of the helpers not needed for the ordering argument
    R.add(Contract(N + 'ConfigNode.ayns.on_merge', [P.node('self', 'ConfigNode'), P.path('path'), P.node('other', 'ConfigNode')], name='abstract',
                   assume_only=True, modifies=anyall(NODEF), result=P.node('result', 'ConfigNode', maybe_fresh=True), raises=[Raises('MergeError')],
                   props=('C08',), opts={'callee': False}, note='recursive merge of two children: any effect on the heap, returns a node or raises MergeError'))
    for key in (N + 'ConfigNode.ayns._require_all_new', C + 'ComposedNode.ayns._require_all_new'):
        R.add(Contract(key, [P.node('self', 'ConfigNode'), P.path('path'), P.val('reason', 'any')], name='abstract', assume_only=True, pure=True,
                       raises=[Raises('ValueError')], props=('C08',), opts={'callee': False, 'bind_partial': True},
                       note='returns normally only if every node of the subtree may create new paths (proved separately)'))
    R.add(Contract(C + 'ComposedNode.ayns.filter_nodes', [P.node('self', 'ComposedNode')], name='abstract', assume_only=True, modifies=anyall(NODEF),
                   result=lambda c, it: c.a['self'], props=('C08',), opts={'callee': False, 'bind_partial': True}, note='pruning: any effect on the subtree, returns the receiver'))
    for fn in ('_replace_self', '_replace_other'):
        R.add(Contract(N + 'ConfigNode.' + fn, [P.node('self', 'ConfigNode'), P.node('other', 'ConfigNode'), P.val('allow_promotions', 'bool')], name='abstract',
                       assume_only=True, modifies=anyall(NODEF), result=P.node('result', 'ConfigNode', maybe_fresh=True), props=('C08',), opts={'callee': False},
                       note='flag combination with possible type promotion: any effect, returns one of the two nodes'))
    R.inline_keys |= {'awesomeyaml/nodes/node_path.py::NodePath.get_list_path', 'awesomeyaml/nodes/function.py::FunctionNode.__bool__'}
    R.add(Contract('awesomeyaml/nodes/node_path.py::NodePath.get_str_path', [], name='text-of-path', assume_only=True, pure=True,
                   result=lambda c, it: SV(Val.str(it.eng.path_str(c.a['path'].items[0].s))) if isinstance(c.a['path'].items[0], PathV) else SV(Val.str(it.run.fresh('pathstr', z3.StringSort()))),
                   props=('C05', 'C08'), note='text form of a path (used in messages only): an uninterpreted function of the path'))

    USE = {N + 'ConfigNode.ayns.on_merge': 'abstract', N + 'ConfigNode.ayns._require_all_new': 'abstract', C + 'ComposedNode.ayns._require_all_new': 'abstract',
           C + 'ComposedNode.ayns.filter_nodes': 'abstract', N + 'ConfigNode._replace_self': 'abstract', N + 'ConfigNode._replace_other': 'abstract'}
    from .c_containers import USE_VIEWS
    USE.update(USE_VIEWS)
    WATCH = {D + 'ConfigDict.ayns.set_child': 'adopt', C + 'ComposedNode.ayns.get_child': 'lookup-child',
             N + 'ConfigNode.ayns._require_all_new': 'require-new', C + 'ComposedNode.ayns._require_all_new': 'require-new',
             C + 'ComposedNode.ayns.filter_nodes': 'C04+C05.pruning-walk'}

    def gate_filter(sc, kw):
        # the pruning walk of a deleting merge runs over the OLDER node, with the predicate that compares by relative path
        # (maybe_keep, proved above under exactly this calling convention), and it is told where the two nodes live: the
        # predicate strips len(path) leading components, so the walk has to start its paths at `path`
        from pyvc.values import FuncV
        recv, cond = kw['args'][0], kw['args'][1]
        pre = kw['kwargs'].get('prefix')
        if not isinstance(pre, PathV) or not isinstance(cond, FuncV) or not cond.fi.key.endswith('on_merge_impl.maybe_keep'):
            return z3.BoolVal(False)
        return z3.And(recv.t == sc['self'], pre.s == sc.a['path'].s)

    def gate_adopt(sc, kw):
        selfv, name, value = kw['args'][0], kw['args'][1], kw['args'][2]
        prior = [e for e in sc.events if e[2].get('index', -1) < kw['index']]
        required = any(e[0] == 'require-new' and e[2]['args'][0].t.eq(value.t) for e in prior)
        looks = [e for e in prior if e[0] == 'lookup-child' and e[2]['args'][1].t.eq(name.t)]
        if not looks:
            return z3.BoolVal(required)
        h = looks[-1][2]['heap']
        m = S.children(h, r_of(selfv.t))
        had = m.has(name.t)
        old_is_container = S.is_composed(sc.eng, h.cls(r_of(m.get(name.t))))
        # a key the older mapping lacks: adopted only after the new-path check of the adopted subtree; a LEAF that is replaced:
        # what takes its place has been checked below itself (C08: a container replacing a leaf must not smuggle !notnew entries in)
        return z3.And(z3.Or(had, z3.BoolVal(required)), z3.Implies(z3.And(had, z3.Not(old_is_container)), z3.BoolVal(required)))

    def gate_require(sc, kw):
        # the new-key form of the check (whole subtree, the node itself included) is used only for keys the older mapping does NOT
        # have: an existing child - also an empty or otherwise false-ish one - is merged, never treated as new (C02)
        if 'include_self' in kw.get('kwargs', {}):
            return z3.BoolVal(True)
        if kw['args'][0].t.eq(sc['other']):
            return z3.BoolVal(True)          # the whole newer node replacing an emptied older one (deleting branch): checked as a whole
        prior = [e for e in sc.events if e[2].get('index', -1) < kw['index'] and e[0] == 'lookup-child']
        if not prior:
            return z3.BoolVal(False)
        look = prior[-1][2]
        m = S.children(look['heap'], r_of(look['args'][0].t))
        return z3.Or(z3.Not(m.has(look['args'][1].t)), is_none(m.get(look['args'][1].t)))

    ok = lambda sc, kw: z3.BoolVal(True)
    R.add(Contract(C + 'ComposedNode.ayns.on_merge_impl', [P.node('self', 'ConfigDict', exact=True), P.path('path'), P.node('other', 'ConfigDict', exact=True)],
                   name='dominance-of-new-key-check',
                   requires=lambda c: [('valid', z3.And(S.valid_flags(c.pre, c.ref('self')), S.valid_flags(c.pre, c.ref('other'))))],
                   modifies=anyall(NODEF), raises=[Raises('ValueError'), Raises('MergeError'), Raises('TypeError'), Raises('KeyError'), Raises('IndexError')],
                   loops={0: Loop(lambda c, L: [], mod_locals=['key', 'value', 'child', 'merge', 'possibly_new_child'], mod_fields=NODEF)},
                   props=('C08', 'C02'),
                   opts={'use': USE, 'watch': WATCH, 'verify_only': True, 'no_search': True, 'assume_children_are_objects': True, 'no_frame': True,
                         'gates': {'adopt': gate_adopt, 'lookup-child': ok, 'require-new': gate_require, 'C04+C05.pruning-walk': gate_filter},
                         'gates_on_raise': True, 'skip_kinds': ('pre', 'safety')},
                   note='order of operations in one iteration of the key loop: adoption of a key the older mapping lacks is dominated by the new-path check; callee preconditions and run-time type safety are NOT obligations of this instance (they belong to the functional contracts)'))


def register_wholesale(R):
    """ComposedNode.on_merge_impl, deleting branch (C02 'a list replaces', C04 'a deleting node replaces exactly'): when the newer node deletes,
    the pruning walk has emptied the older node (nothing in it outranks its counterpart) and the newer node is not outranked by the
    older one - equal priority included - the result IS the newer node taking the older one's place (_replace_other on the newer
    node), not a key-wise graft of its entries into the emptied older container.  Ghosts: EmptiedByPruning(older) := the older node
    has no children when filter_nodes returns; TakesPlaceOf(a, b) := what a._replace_other(b) returns."""
    D = 'awesomeyaml/nodes/dict.py::'
    anyall = lambda fields: (lambda c: [(f, 'all') for f in fields])
    NODEF = ['_priority', '_delete', '_allow_new', '_safe', '_implicit_delete', '_implicit_allow_new', '_implicit_safe', '_default_safe', '_metadata',
             '_pyyaml_node', '_children', '$mlen', '$mkeyat', '$mpos', '$mval', '$llen', '$litem', '$pset', '_func']
    KEEP = ('_priority', '_delete', '_implicit_delete')
    Emptied = z3.Function('EmptiedByPruning', sym.I, z3.BoolSort())
    Takes = z3.Function('TakesPlaceOf', sym.I, sym.I, Val)
    R.add(Contract(C + 'ComposedNode.ayns.filter_nodes', [P.node('self', 'ComposedNode')], name='abstract-emptying', assume_only=True,
                   modifies=anyall([f for f in NODEF if f not in KEEP]),
                   ensures=[('def:EmptiedByPruning', lambda c: Emptied(c.ref('self')) == (S.children(c.post, c.ref('self')).len == 0))],
                   result=lambda c, it: c.a['self'], props=('C02', 'C04'), opts={'callee': False, 'bind_partial': True},
                   note='pruning: removes entries (proved for mappings in c_filter); priorities and delete flags of all nodes are untouched'))
    R.add(Contract(N + 'ConfigNode._replace_other', [P.node('self', 'ConfigNode'), P.node('other', 'ConfigNode'), P.val('allow_promotions', 'bool')], name='abstract-named',
                   assume_only=True, modifies=anyall(NODEF), result=P.node('result', 'ConfigNode', maybe_fresh=True),
                   ensures=[('def:TakesPlaceOf', lambda c: c.rt == Takes(c.ref('self'), c.ref('other')))],
                   props=('C02', 'C04'), opts={'callee': False}, note='flag combination with possible type promotion; its result is named by a ghost function of the two nodes'))
    USE = {N + 'ConfigNode.ayns.on_merge': 'abstract', N + 'ConfigNode.ayns._require_all_new': 'abstract', C + 'ComposedNode.ayns._require_all_new': 'abstract',
           C + 'ComposedNode.ayns.filter_nodes': 'abstract-emptying', N + 'ConfigNode._replace_self': 'abstract', N + 'ConfigNode._replace_other': 'abstract-named'}
    from .c_containers import USE_VIEWS
    USE.update(USE_VIEWS)

    def ens(c):
        s, o = c.ref('self'), c.ref('other')
        cond = z3.And(S.delete_eff(c.eng, c.pre, o), Emptied(s), S.stronger(c.pre, o, c.pre, s, z3.BoolVal(True)))
        return [('C02+C04.a-deleting-newer-node-that-is-not-outranked-takes-the-place-of-an-older-node-emptied-by-the-pruning', z3.Implies(cond, c.rt == Takes(o, s)))]

    TAG = 'C03.flags-and-metadata-of-the-merged-container-are-combined-in-favour-of-the-newer-node-unless-it-is-outranked'

    def gate_combine(sc, kw):
        # _replace_self(a, b): a absorbs b's flags / metadata (b wins what both define); _replace_other(a, b): a's win.  At the end of the
        # composed merge the NEWER node's flags and metadata win unless the older node is strictly stronger - latest among equals (C03)
        recv, arg = kw['args'][0], kw['args'][1]
        h = kw['heap']
        s, o = sc.ref('self'), sc.ref('other')
        newer_not_outranked = S.stronger(h, o, h, s, z3.BoolVal(True))
        which = kw['which']
        if which == 'self':
            return z3.And(recv.t == sc['self'], arg.t == sc['other'], newer_not_outranked)
        return z3.Or(z3.And(recv.t == sc['self'], arg.t == sc['other'], z3.Not(newer_not_outranked)),
                     z3.And(recv.t == sc['other'], arg.t == sc['self'], newer_not_outranked))

    R.add(Contract(C + 'ComposedNode.ayns.on_merge_impl', [P.node('self', 'ConfigDict', exact=True), P.path('path'), P.node('other', ['ConfigDict', 'ConfigList'])],
                   name='wholesale-replacement',
                   requires=lambda c: [('valid', z3.And(S.valid_flags(c.pre, c.ref('self')), S.valid_flags(c.pre, c.ref('other')), c.ref('self') != c.ref('other')))],
                   modifies=anyall(NODEF), raises=[Raises('ValueError'), Raises('MergeError'), Raises('TypeError'), Raises('KeyError'), Raises('IndexError')],
                   ensures=[('wholesale', ens)], result=P.val('result', 'any'),
                   loops={0: Loop(lambda c, L: [], mod_locals=['key', 'value', 'child', 'merge', 'possibly_new_child'], mod_fields=NODEF)},
                   props=('C02', 'C04'),
                   opts={'use': USE, 'verify_only': True, 'no_search': True, 'assume_children_are_objects': True, 'no_frame': True, 'skip_kinds': ('pre', 'safety'),
                         'watch': {N + 'ConfigNode._replace_self': TAG + ':absorb', N + 'ConfigNode._replace_other': TAG + ':keep'},
                         'gates': {TAG + ':absorb': lambda sc, kw: gate_combine(sc, dict(kw, which='self')), TAG + ':keep': lambda sc, kw: gate_combine(sc, dict(kw, which='other'))}},
                   note='older node a mapping, newer node a mapping or a list; callee preconditions and run-time type safety are not obligations of this instance'))


def register_nearest(R):
    """ComposedNode.ayns.get_first_not_missing_node (C04/C05): the counterpart an older entry is compared with is the DEEPEST existing
    node along its (relative) path in the newer tree - relative to an assumed contract of the path walk get_node(intermediate=True,
    incomplete=True): the receiver, then the nodes reached component by component, ending with None at the first missing one."""
    from pyvc.values import TupleV
    Along = z3.Function('NodeAlong', sym.I, sym.PathSort, sym.I, Val)       # ghost: node reached after j components (none when missing)
    WalkN = z3.Function('NodesAlongLen', sym.I, sym.PathSort, sym.I)        # ghost: number of entries the walk returns

    def path_of(c):
        p = c.a['path']
        return p.s if isinstance(p, PathV) else p.items[0].s

    def walk_result(c, it):
        r = it.run.alloc('list')
        j = z3.Int('!aj')
        s, p = c.ref('self'), path_of(c)
        n = WalkN(s, p)
        it.heap.put_l(r, sym.ListT(n, z3.Lambda([j], Along(s, p, j))))
        it.run.assume(z3.And(n >= 1, n <= z3.Length(p) + 1, Along(s, p, 0) == c['self'],
                             z3.ForAll([j], z3.Implies(z3.And(0 <= j, j < n - 1), z3.And(is_ref(Along(s, p, j)), r_of(Along(s, p, j)) > 0))),
                             z3.Or(is_none(Along(s, p, n - 1)), z3.And(is_ref(Along(s, p, n - 1)), r_of(Along(s, p, n - 1)) > 0)),
                             z3.Implies(is_none(Along(s, p, n - 1)), n >= 2)))
        return SV(sym.mk_ref(r), hint=frozenset(['list']))

    def mode(c):
        out = []
        for nm, want in (('intermediate', True), ('incomplete', True), ('names', False)):
            v = c.a.get(nm)
            out.append((f'walk-called-with-{nm}={want}', z3.BoolVal(False) if not isinstance(v, SV) else sym.truthy_prim(v.t) == z3.BoolVal(want)))
        return out
    R.add(Contract(C + 'ComposedNode.ayns.get_node', [P.node('self', 'ComposedNode'), P.path('path')], name='walk-with-first-missing', assume_only=True, pure=True,
                   requires=mode, result=walk_result, props=('C04', 'C05'), opts={'callee': False},
                   note='get_node(path, intermediate=True, incomplete=True): the nodes along the path starting with the receiver; if a component is missing the list '
                        'ends with None in its place (path walking with callbacks: ASSUMED, covered by the bounded walk/lookup stand-in)'))

    def nearest(c):
        s, p = c.ref('self'), path_of(c)
        n = WalkN(s, p)
        return z3.If(is_none(Along(s, p, n - 1)), Along(s, p, n - 2), Along(s, p, n - 1))

    def setup(it, fr, sc):
        fr.loc['path'] = TupleV([it.spec_args['path']])

    R.add(Contract(GFN, [P.node('self', 'ComposedNode'), P.path('path')], name='deepest-existing',
                   pure=True, ensures=[('C04+C05.counterpart-is-the-deepest-existing-node-along-the-path', lambda c: c.rt == nearest(c)),
                                       ('result-is-a-node', lambda c: z3.And(is_ref(c.rt), r_of(c.rt) > 0))],
                   result=P.val('result', 'any'), props=('C04', 'C05'),
                   opts={'setup': setup, 'bind_partial': True, 'verify_only': True, 'no_search': True, 'asserts_are_checks': True,
                         'use': {C + 'ComposedNode.ayns.get_node': 'walk-with-first-missing'}},
                   note='the abstract function Nearest used by the pruning predicates is this: last non-missing entry of the walk'))


def register_traversals(R):
    """ComposedNode.on_preprocess_impl / on_premerge_impl (C16, C06): one-line wrappers of the generic traversal map_nodes; what is
    decided is the CALL CONVENTION - the traversal visits the children of the receiver (no recursion of its own: every child's own hook
    recurses), hands every child the hook with its path, and is told where the receiver lives (prefix == path), so that operators below
    the top level look their targets up at their full path."""
    anyall = lambda fields: (lambda c: [(f, 'all') for f in fields])
    NODEF = ['_priority', '_delete', '_allow_new', '_safe', '_implicit_delete', '_implicit_allow_new', '_implicit_safe', '_default_safe', '_metadata',
             '_pyyaml_node', '_children', '$mlen', '$mkeyat', '$mpos', '$mval', '$llen', '$litem', '$pset', '_func']
    R.add(Contract(C + 'ComposedNode.ayns.map_nodes', [P.node('self', 'ComposedNode')], name='abstract', assume_only=True, modifies=anyall(NODEF),
                   result=P.node('result', 'ConfigNode', maybe_fresh=True), raises=[Raises('Exception')], props=('C16', 'C06'),
                   opts={'callee': False, 'bind_partial': True}, note='generic traversal with re-setting of replaced children: any effect on the subtree; returns a node'))

    def gate_traverse(sc, kw):
        recv = kw['args'][0]
        k = kw['kwargs']
        pre = k.get('prefix')
        if not isinstance(pre, PathV):
            return z3.BoolVal(False)
        flags = []
        for nm, want in (('recurse', False), ('include_self', False), ('leafs_only', False)):
            v = k.get(nm)
            flags.append(z3.BoolVal(False) if not isinstance(v, SV) else (v.t == (sym.TRUE if want else sym.FALSE)))
        return z3.And(recv.t == sc['self'], pre.s == sc.a['path'].s, *flags)

    for fn, second in (('on_premerge_impl', P.node('into', 'ConfigNode')), ('on_preprocess_impl', P.val('builder', 'any'))):
        R.add(Contract(C + 'ComposedNode.ayns.' + fn, [P.node('self', 'ComposedNode'), P.path('path'), second], name='traversal-convention',
                       modifies=anyall(NODEF), raises=[Raises('Exception')], result=P.node('result', 'ConfigNode', maybe_fresh=True), props=('C16', 'C06'),
                       opts={'use': {C + 'ComposedNode.ayns.map_nodes': 'abstract'}, 'watch': {C + 'ComposedNode.ayns.map_nodes': 'C05+C16+C06.children-visited-with-their-full-paths'},
                             'gates': {'C05+C16+C06.children-visited-with-their-full-paths': gate_traverse}, 'no_search': True, 'verify_only': True, 'no_frame': True,
                             'skip_kinds': ('pre', 'safety')},
                       note='call convention of the traversal only'))


def _reg_all(R):
    register(R)
    register_dominance(R)
    register_nearest(R)
    register_wholesale(R)
    register_traversals(R)
