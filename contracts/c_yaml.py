"""C01: the loader hook (deferred fill of containers), merge-control tag constructors."""
import ast
import z3
from pyvc import sym
from pyvc.sym import Val, is_none, is_bool, is_int, is_str, is_ref, is_undef, b_of, i_of, r_of, ListT, MapT
from pyvc.contract import Contract, P, Raises, Loop
from pyvc.values import SV, PathV, TupleV, OpaqueV
from pyvc.tasks import Structural
from . import spec as S

Y = 'awesomeyaml/yaml.py::'


def register(R):
    # PyYAML's construct_object (assumed): returns the Python value of the YAML node; a container is COMPLETE on return
    # iff `deep or self.deep_construct` held at the call, otherwise it is filled later by PyYAML's own generator
    def base_construct(it, a, kw, n, fr):
        it.run.event('pyyaml-construct', lineno=getattr(n, 'lineno', None), args=a, kwargs=kw, heap=it.heap.snapshot(), index=len(it.run.events))
        return SV(it.run.fresh('pyyaml_value'))
    R.opaque['super:AwesomeyamlLoader.construct_object'] = base_construct
    R.add(Contract(Y + 'AwesomeyamlLoader._make_generator', [P.val('value', 'any')], name='deferred-fill', assume_only=True, pure=True, effects=[('schedule-fill',)],
                   result=lambda c, it: OpaqueV('generator'), props=('C01',), opts={'bind_partial': True},
                   note='creates the generator that later copies the (then complete) PyYAML container into the node: an effect whose scheduling is what the hook contract decides'))
    R.add(Contract(Y + 'AwesomeyamlLoader._convert', [P.node('self', 'AwesomeyamlLoader', exact=True), P.val('value', 'any'), P.val('node', 'any')], name='wrap', assume_only=True,
                   modifies=lambda c: [(f, 'all') for f in ('_idx', '_source_file', '_priority', '_pyyaml_node') + tuple(S.IMPLICIT)],
                   ensures=[('wrap', lambda c: z3.Or(c.rt == c['value'], z3.And(is_ref(c.rt), c.eng.isinstance_term(c.post.cls(r_of(c.rt)), 'ConfigNode'))))],
                   result=P.val('result', 'any'), props=('C01',),
                   note='wraps the PyYAML value in a node (ConfigNode(value, pyyaml_node=node)), or returns it unchanged (implicit null, or already a node)'))

    def truthy(t):
        return sym.truthy_prim(t)

    def gate_fill(sc, kw):
        # PyYAML left the container empty (to be filled later) only if neither `deep` nor the loader's deep_construct mode was on
        return z3.And(z3.Not(truthy(sc['deep'])), z3.Not(truthy(sc.pre.get('deep_construct', sc.ref('self')))))

    def ens(c):
        scheduled = any(e[0] == 'schedule-fill' for e in getattr(c, 'events', []))
        complete = z3.Or(truthy(c['deep']), truthy(c.pre.get('deep_construct', c.ref('self'))))
        return [('C01.a-container-already-completed-by-PyYAML-is-never-filled-again', z3.Implies(complete, z3.BoolVal(not scheduled)))]

    ok = lambda sc, kw: z3.BoolVal(True)
    for cls in ('SequenceNode', 'MappingNode', 'ScalarNode'):
        R.add(Contract(Y + 'AwesomeyamlLoader.construct_object', [P.node('self', 'AwesomeyamlLoader', exact=True), P.node('node', cls, exact=True), P.val('deep', 'bool'), P.val('convert', 'bool')],
                       name=cls, requires=lambda c: [('mode-is-bool', is_bool(c.pre.get('deep_construct', c.ref('self'))))],
                       modifies=lambda c: [(f, 'all') for f in ('$llen', '$litem', '_idx', '_source_file', '_priority', '_pyyaml_node') + tuple(S.IMPLICIT)],
                       ensures=[('hook', ens)], result=P.val('result', 'any'), props=('C01', 'C15'),
                       opts={'use': {Y + 'AwesomeyamlLoader._convert': 'wrap', Y + 'AwesomeyamlLoader._make_generator': 'deferred-fill'}, 'no_search': True, 'no_frame': True, 'skip_kinds': ('safety',),
                             'gates': {'schedule-fill': gate_fill, 'pyyaml-construct': ok}},
                       note='deferred fill is scheduled only when PyYAML returned a container it will fill later; with deep construction the node is built from the complete value and must not be filled a second time'))

    # ---- parse_scalar: the value of a TAGGED scalar is resolved the way PyYAML resolves the same scalar without the tag:
    # a plain scalar through the implicit resolvers (12 -> int), a quoted or block scalar as a string ('12' stays text)
    def gate_resolve(sc, kw):
        a = kw['args']          # [the bound method loader.resolve, kind, text, (implicit-if-plain, implicit-if-not-plain)]
        from pyvc.values import TupleV, ClassV
        if len(a) < 4 or not isinstance(a[3], TupleV) or len(a[3].items) != 2 or not isinstance(a[2], SV):
            return z3.BoolVal(False)
        plain = is_none(sc.pre.get('style', sc.ref('node')))
        i0, i1 = a[3].items
        # (the text handed over is that of a deep copy of the node: copy.deepcopy is modelled without the fields of foreign objects)
        return z3.And(sym.truthy_prim(i0.t) == plain, sym.truthy_prim(i1.t) == z3.Not(plain))

    def ext_resolve(it, a, kw, n, fr):
        it.run.event('C01.resolve-tag-of-untagged-twin', lineno=getattr(n, 'lineno', None), args=a, kwargs=kw, heap=it.heap.snapshot(), index=len(it.run.events))
        return SV(Val.str(it.run.fresh('resolved_tag', z3.StringSort())))
    R.opaque['AwesomeyamlLoader.resolve'] = ext_resolve
    R.add(Contract(Y + 'AwesomeyamlLoader.construct_object', [P.node('self', 'AwesomeyamlLoader', exact=True), P.val('node', 'any')], name='abstract', assume_only=True,
                   modifies=lambda c: [(f, 'all') for f in ('$llen', '$litem', '_idx', '_source_file', '_priority', '_pyyaml_node') + tuple(S.IMPLICIT)],
                   result=P.val('result', 'any'), props=('C01',), opts={'callee': False, 'bind_partial': True}, note='construction of the untagged twin (proved separately per node kind)'))
    R.add(Contract(Y + 'parse_scalar', [P.node('loader', 'AwesomeyamlLoader', exact=True), P.node('node', 'ScalarNode', exact=True)],
                   requires=lambda c: [('scalar-text', is_str(c.pre.get('value', c.ref('node'))))],
                   modifies=lambda c: [(f, 'all') for f in ('$llen', '$litem', '_idx', '_source_file', '_priority', '_pyyaml_node', 'tag', 'value', 'style') + tuple(S.IMPLICIT)],
                   result=P.val('result', 'any'), props=('C01',),
                   opts={'use': {Y + 'AwesomeyamlLoader.construct_object': 'abstract'}, 'no_search': True, 'no_frame': True, 'skip_kinds': ('safety',),
                         'gates': {'call-target': gate_resolve, 'deepcopy': lambda sc, kw: z3.BoolVal(True)}},
                   note='tagged scalars: type resolution of the untagged twin'))

    # ---- the merge-control constructors only add flags (structural) ---------------------------------------------------
    FLAG_ONLY = {'_del_constructor': {'delete'}, '_weak_constructor': {'priority'}, '_force_constructor': {'priority'}, '_merge_constructor': {'delete'},
                 '_new_constructor': {'allow_new'}, '_notnew_constructor': {'allow_new'}, '_unsafe_constructor': {'safe'}}

    def flag_only(eng):
        out = []
        m = eng.repo.modules['awesomeyaml/yaml.py']
        for fn, allowed in FLAG_ONLY.items():
            fi = m.functions.get(fn)
            if fi is None:
                out.append((f'C01.{fn}-exists', False, 'function missing'))
                continue
            body = [st for st in fi.node.body if not (isinstance(st, ast.Expr) and isinstance(st.value, ast.Constant))]
            ok = len(body) == 1 and isinstance(body[0], ast.Return) and isinstance(body[0].value, ast.Call) and ast.unparse(body[0].value.func) == '_make_node'
            detail = ast.unparse(body[0]) if body else ''
            if ok:
                call = body[0].value
                kws = {k.arg: k.value for k in call.keywords}
                ok = set(kws) <= {'kwargs'} and len(call.args) == 2
                if ok and 'kwargs' in kws:
                    d = kws['kwargs']
                    ok = isinstance(d, ast.Dict) and {k.value for k in d.keys if isinstance(k, ast.Constant)} <= allowed and len(d.keys) == len(allowed)
            out.append((f'C01.{fn}-is-_make_node-with-flag-only-keywords', ok, detail))
        return out
    R.tasks.append(Structural('structural:C01-merge-control-constructors-only-add-flags', ('C01',), flag_only,
                              note='each merge-control tag constructor is exactly `_make_node(loader, node, kwargs={<its flag>})`: default node type (type deduction from the content), no data transformation'))


def _with(c, name, fn):
    c.x[name] = fn
    return c


def register_dump(R):
    """C18: the data path of a dump that is within reach: which flags are saved, how metadata is decoded back into
    constructor keywords.  (The elision logic of _node_representer filters a mapping of symbolic shape and drives the PyYAML
    emitter: bounded stand-in.)"""
    N = 'awesomeyaml/nodes/node.py::'

    def copy_copy(it, a, kw, n, fr):
        v = it.sv(a[0], n)
        r = it.run.alloc('dict')
        it.heap.put_m(r, it.heap.m(sym.r_of(v.t)))
        return SV(sym.mk_ref(r), hint=frozenset(['dict']))
    R.opaque['copy.copy'] = copy_copy

    def info_ens(c):
        s = c.ref('self')
        m = c.post.m(r_of(c.rt))
        md = S.md(c.pre, s)
        k = z3.Const('!ik', Val)
        flags = {'priority': '_priority', 'delete': '_delete', 'allow_new': '_allow_new', 'safe': '_safe'}
        out = [(f'C18.saved-{nm}-is-the-explicit-flag', z3.And(m.has(sym.mk_str(nm)), m.get(sym.mk_str(nm)) == c.pre.get(f, s))) for nm, f in flags.items()]
        out.append(('C18.user-metadata-is-saved-unchanged', S.FA([k], z3.Implies(z3.And(md.has(k), z3.And([k != sym.mk_str(nm) for nm in flags])), z3.And(m.has(k), m.get(k) == md.get(k))))))
        out.append(('C18.node-keeps-its-own-metadata-object', z3.And(r_of(c.rt) != r_of(c.pre.get('_metadata', s)), S.md(c.post, s).eq(md))))
        out.append(('C18.saved-info-is-a-new-object', z3.Not(c.alive(r_of(c.rt)))))
        return out

    R.add(Contract(N + 'ConfigNode.ayns.get_node_info_to_save', [P.node('self', 'ConfigNode')],
                   requires=lambda c: [('metadata-is-a-dict', z3.And(is_ref(c.pre.get('_metadata', c.ref('self'))), r_of(c.pre.get('_metadata', c.ref('self'))) > 0,
                                                                    S.md(c.pre, c.ref('self')).len >= 0))],
                   pure=True, ensures=[('info', info_ens)], result=P.map('result', fresh=True), props=('C18',), opts={'no_search': True},
                   note='what a dump starts from: the user metadata plus the four EXPLICIT flags of the node'))

    # FunctionNode.ayns.represent: what a dump writes for a !call / !bind node.  The constructor of function nodes sets
    # delete=True when no flag is given, so exactly that value may be left out; any other explicit flag has to be written.
    F = 'awesomeyaml/nodes/function.py::'
    D_ = 'awesomeyaml/nodes/dict.py::'
    for key in (F + 'FunctionNode.ayns.tag', 'awesomeyaml/nodes/call.py::CallNode.ayns.tag', 'awesomeyaml/nodes/bind.py::BindNode.ayns.tag'):
        R.add(Contract(key, [P.node('self', 'FunctionNode')], name='abstract', assume_only=True, pure=True, result=P.val('result', 'str'), props=('C18',),
                       opts={'callee': False}, note='tag text of a function node (string formatting of the target name): not interpreted'))
    for key in (D_ + 'ConfigDict._get_value', 'awesomeyaml/nodes/composed.py::ComposedNode._get_value'):
        R.add(Contract(key, [P.node('self', 'ComposedNode')], name='abstract', assume_only=True, pure=True, result=P.val('result', 'any'), props=('C18',),
                       opts={'callee': False}, note='the arguments as a container value: not interpreted here'))

    def rep_ens(c):
        s = c.ref('self')
        md = S.md(c.pre, s)
        k = z3.Const('!rk', Val)
        meta = c.x['represent_meta'](c)
        d0 = c.pre.get('_delete', s)
        flags = {'priority': '_priority', 'allow_new': '_allow_new', 'safe': '_safe'}
        out = [('C18.function-node-omits-only-the-constructor-default-delete-flag',
                z3.And(meta.has(sym.mk_str('delete')), meta.get(sym.mk_str('delete')) == z3.If(d0 == sym.TRUE, sym.NONE, d0)))]
        out += [(f'C18.function-node-saves-explicit-{nm}', z3.And(meta.has(sym.mk_str(nm)), meta.get(sym.mk_str(nm)) == c.pre.get(f, s))) for nm, f in flags.items()]
        out.append(('C18.function-node-saves-user-metadata-unchanged',
                    S.FA([k], z3.Implies(z3.And(md.has(k), z3.And([k != sym.mk_str(nm) for nm in ('priority', 'delete', 'allow_new', 'safe')])), z3.And(meta.has(k), meta.get(k) == md.get(k))))))
        return out

    def rep_result(c):
        # second component of the returned triple
        from pyvc.values import TupleV
        res = c.res
        assert isinstance(res, TupleV) and len(res.items) == 3, res
        return c.post.m(r_of(res.items[1].t))

    R.add(Contract(F + 'FunctionNode.ayns.represent', [P.node('self', ['CallNode', 'BindNode'])],
                   requires=lambda c: [('metadata-is-a-dict', z3.And(is_ref(c.pre.get('_metadata', c.ref('self'))), r_of(c.pre.get('_metadata', c.ref('self'))) > 0,
                                                                    S.md(c.pre, c.ref('self')).len >= 0))],
                   pure=True, ensures=[('represent', lambda c: rep_ens(_with(c, 'represent_meta', rep_result)))], props=('C18',),
                   opts={'no_search': True, 'verify_only': True, 'use': {k_: 'abstract' for k_ in (F + 'FunctionNode.ayns.tag', 'awesomeyaml/nodes/call.py::CallNode.ayns.tag',
                                                                                                    'awesomeyaml/nodes/bind.py::BindNode.ayns.tag', D_ + 'ConfigDict._get_value',
                                                                                                    'awesomeyaml/nodes/composed.py::ComposedNode._get_value')}},
                   note='flags written for a function node'))

    # AwesomeyamlDumper.serialize_node: the "write scalars without quotes" mode is switched on for an unquoted scalar node only
    # while that node is emitted, and whatever the mode was before is back on every exit (otherwise every later scalar of the
    # document - keys included - is written plain, and strings that need quotes no longer parse back)
    def base_serialize(it, a, kw, n, fr):
        it.run.event('C18.emit-node', lineno=getattr(n, 'lineno', None), args=a, kwargs=kw, heap=it.heap.snapshot(), index=len(it.run.events))
        # the nested calls for the children of a collection node restore the mode themselves (this very contract, one level down)
        k = it.run.choose(2, 'emit-outcome')
        if k == 1:
            from pyvc.interp import exc_is
            from pyvc.core import RaiseEx
            from pyvc.values import ExcV
            raise RaiseEx(ExcV('Exception', fields={}, lineno=getattr(n, 'lineno', None)))
        return SV(it.run.fresh('serialized'))
    R.opaque['super:AwesomeyamlDumper.serialize_node'] = base_serialize

    def gate_emit(sc, kw):
        h = kw['heap']
        d = sc.ref('self')
        unq = sc.eng.isinstance_term(sc.pre.cls(sc.ref('node')), 'UnquotedNode')
        return h.get('_unquoted', d) == z3.If(unq, sym.TRUE, sc.pre.get('_unquoted', d))

    for ncls in ('UnquotedNode', 'ScalarNode', 'MappingNode'):
        R.add(Contract(Y + 'AwesomeyamlDumper.serialize_node', [P.node('self', 'AwesomeyamlDumper', exact=True), P.node('node', ncls, exact=True), P.val('parent', 'any'), P.val('index', 'any')],
                       name=ncls, requires=lambda c: [('mode-is-bool', is_bool(c.pre.get('_unquoted', c.ref('self'))))],
                       modifies=lambda c: [('_unquoted', [c.ref('self')])],
                       ensures=[('C18.unquoted-mode-restored-after-a-node-is-written', lambda c: c.post.get('_unquoted', c.ref('self')) == c.pre.get('_unquoted', c.ref('self')))],
                       raises=[Raises('Exception')], result=P.val('result', 'any'), props=('C18',),
                       opts={'no_search': True, 'gates': {'C18.emit-node': gate_emit}, 'gates_on_raise': True, 'skip_kinds': ('safety',),
                             'ensures_on_raise': [('C18.unquoted-mode-restored-when-writing-fails', lambda c: c.post.get('_unquoted', c.ref('self')) == c.pre.get('_unquoted', c.ref('self')))]},
                       note='scalar quoting mode of the dumper around one node'))

    # PathNode.ayns.value: what a dump writes for a !path node - components, reference point and, whenever the node knows it, the
    # source file (every reference point relative to the file - file, parent, parent(n) - is meaningless without it after a re-parse)
    PN = 'awesomeyaml/nodes/path.py::'
    L_ = 'awesomeyaml/nodes/list.py::'
    for key in (L_ + 'ConfigList._get_value', 'awesomeyaml/nodes/composed.py::ComposedNode._get_value'):
        if not any(cc.name == 'abstract-list' for cc in R.get(key)):
            R.add(Contract(key, [P.node('self', 'ComposedNode')], name='abstract-list', assume_only=True, pure=True, result=P.list('result'),
                           props=('C18',), opts={'callee': False}, note='the components as a list: not interpreted here'))

    def pv_ens(c):
        s = c.ref('self')
        m = c.post.m(r_of(c.rt))
        sf = c.pre.get('_source_file', s)
        return [('C18.path-node-saves-its-reference-point', z3.And(m.has(sym.mk_str('ref_point')), m.get(sym.mk_str('ref_point')) == c.pre.get('ref_point', s))),
                ('C18.path-node-saves-its-source-file-whenever-it-knows-it', z3.Implies(z3.Not(is_none(sf)), z3.And(m.has(sym.mk_str('source_file')), m.get(sym.mk_str('source_file')) == sf))),
                ('C18.path-node-saves-its-components', m.has(sym.mk_str('values')))]
    R.add(Contract(PN + 'PathNode.ayns.value', [P.node('self', 'PathNode', exact=True)], pure=True, ensures=[('value', pv_ens)], result=P.map('result', fresh=True), props=('C18',),
                   opts={'no_search': True, 'verify_only': True, 'skip_kinds': ('safety',), 'no_frame': True,
                         'use': {L_ + 'ConfigList._get_value': 'abstract-list', 'awesomeyaml/nodes/composed.py::ComposedNode._get_value': 'abstract-list',
                                 'awesomeyaml/nodes/node.py::ConfigNode.ayns.source_file': 'default'}},
                   note='data written for a !path node'))

    # _decode_metadata: special names become constructor keywords, the rest stays user metadata
    SPECIAL = ['idx', 'priority', 'delete', 'allow_new', 'source_file', 'safe']
    Unpickled = z3.Function('Unpickled', z3.StringSort(), sym.I)

    def loads(it, a, kw, n, fr):
        # pickle.loads(bytes.fromhex(text)): the mapping that was encoded (assumed: pickle round-trips dicts of literals)
        r = it.run.alloc('dict')
        it.heap.put_m(r, it.spec_extra['encoded_map'])
        return SV(sym.mk_ref(r), hint=frozenset(['dict']))
    R.opaque['pickle.loads'] = loads
    R.opaque['bytes.fromhex'] = lambda it, a, kw, n, fr: OpaqueV('bytes')

    def dec_setup(it, fr, sc):
        m = MapT.fresh('encoded')
        kk = z3.Const('!ek', Val)
        it.run.assume(z3.And(m.len >= 0, z3.ForAll([kk], z3.And(z3.Select(m.pos, kk) >= -1, z3.Select(m.pos, kk) < m.len))))
        it.spec_extra['encoded_map'] = m

    def dec_ens(c):
        M = c.x['encoded_map']
        res = c.post.m(r_of(c.rt))
        out = []
        for s_ in SPECIAL:
            k = sym.mk_str(s_)
            out.append((f'C18.{s_}-becomes-a-constructor-keyword-iff-encoded', z3.And(res.has(k) == M.has(k), z3.Implies(M.has(k), res.get(k) == M.get(k)))))
        rest = c.post.m(r_of(res.get(sym.mk_str('metadata'))))
        kq = z3.Const('!dk', Val)
        out.append(('C18.everything-else-stays-user-metadata', z3.And(res.has(sym.mk_str('metadata')),
                    S.FA([kq], z3.Implies(z3.And([kq != sym.mk_str(s_) for s_ in SPECIAL]), z3.And(rest.has(kq) == M.has(kq), z3.Implies(M.has(kq), rest.get(kq) == M.get(kq))))),
                    z3.And([z3.Not(rest.has(sym.mk_str(s_))) for s_ in SPECIAL]))))
        return out

    R.add(Contract(Y + '_decode_metadata', [P.val('encoded', 'str')], requires=lambda c: [('non-empty', z3.Length(sym.s_of(c['encoded'])) > 0)],
                   modifies=lambda c: [], ensures=[('decode', dec_ens)], result=P.map('result'), props=('C18', 'C01'),
                   opts={'setup': dec_setup, 'no_search': True, 'no_frame': True},
                   note='relative to: pickle.loads(bytes.fromhex(_encode_metadata(m))) == m (assumed)'))


def register_elision(R):
    """The flag-elision loop of _node_representer (C18), lifted mechanically on every run: the statements from the assignment of
    `tags_to_infer` up to and including the first `for` loop become a function of the locals they read (metadata, parent_metadata,
    type_defaults) returning `metadata`.  DROPPED by the extraction: everything before (node.ayns.represent(), the dumper stack lookup)
    and after (metadata exclusion, tag selection, encoding, the PyYAML calls).  What a dump may leave out without the re-parsed
    document differing: a flag without a value; a priority / allow_new / safe flag equal to what the enclosing node wrote or to the
    type default.  An explicit delete flag is observable as such when merging and is never left out; no other entry is touched."""
    import ast
    Y = 'awesomeyaml/yaml.py::'
    if not hasattr(R, 'slices'):
        R.slices = []
    R.slices.append(dict(key=Y + '_node_representer', name='flag-elision',
                         first=lambda st: isinstance(st, ast.Assign) and len(st.targets) == 1 and isinstance(st.targets[0], ast.Name) and st.targets[0].id == 'tags_to_infer',
                         last=lambda st: isinstance(st, ast.For), returns='metadata'))
    FLAGS = ('priority', 'delete', 'allow_new', 'safe')

    def wf(c, m):
        kk = z3.Const('!ek', Val)
        return z3.And(m.len >= 0, S.FA([kk], z3.And(z3.Select(m.pos, kk) >= -1, z3.Select(m.pos, kk) < m.len), patterns=[z3.Select(m.pos, kk)]))

    def req(c):
        m, pm, td = c.pre.m(c.ref('metadata')), c.pre.m(c.ref('parent_metadata')), c.pre.m(c.ref('type_defaults'))
        flagval = lambda v, f: (z3.Or(is_none(v), sym.is_int(v)) if f == 'priority' else z3.Or(is_none(v), is_bool(v)))
        return [('well-formed-mappings', z3.And(wf(c, m), wf(c, pm), wf(c, td), c.ref('metadata') != c.ref('parent_metadata'), c.ref('metadata') != c.ref('type_defaults'))),
                ('type-defaults-has-the-four-flags', z3.And(*[td.has(Val.str(z3.StringVal(f))) for f in FLAGS])),
                ('flag-values', z3.And(*[z3.And(flagval(m.get(Val.str(z3.StringVal(f))), f), flagval(pm.get(Val.str(z3.StringVal(f))), f), flagval(td.get(Val.str(z3.StringVal(f))), f)) for f in FLAGS]))]

    def ens(c):
        m0, m1 = c.pre.m(c.ref('metadata')), c.post.m(c.ref('metadata'))
        pm, td = c.pre.m(c.ref('parent_metadata')), c.pre.m(c.ref('type_defaults'))
        out = [('result-is-the-same-mapping-object', c.rt == c['metadata'])]
        d = Val.str(z3.StringVal('delete'))
        out.append(('C18.an-explicit-delete-flag-is-always-written', z3.Implies(z3.And(m0.has(d), z3.Not(is_none(m0.get(d)))), z3.And(m1.has(d), m1.get(d) == m0.get(d)))))
        for f in FLAGS:
            k = Val.str(z3.StringVal(f))
            parent = z3.If(z3.And(pm.len > 0, pm.has(k)), pm.get(k), Val.none)
            out.append((f'C18.{f}-flag-left-out-only-without-a-value-or-when-the-enclosing-node-or-the-type-default-gives-it',
                        z3.Implies(z3.And(m0.has(k), z3.Not(is_none(m0.get(k))), m0.get(k) != parent, m0.get(k) != td.get(k)), z3.And(m1.has(k), m1.get(k) == m0.get(k)))))
        kk = z3.Const('!uk', Val)
        out.append(('C18.user-metadata-is-never-touched-by-the-elision',
                    S.FA([kk], z3.Implies(z3.And(*[kk != Val.str(z3.StringVal(f)) for f in FLAGS]), z3.And(m1.has(kk) == m0.has(kk), m1.get(kk) == m0.get(kk))), patterns=[m1.get(kk)])))
        return out

    R.add(Contract(Y + '_node_representer$flag-elision', [P.map('metadata'), P.map('parent_metadata'), P.map('type_defaults')], requires=req,
                   modifies=lambda c: [(f, [c.ref('metadata')]) for f in ('$mlen', '$mkeyat', '$mpos', '$mval')],
                   ensures=[('elision', ens)], result=P.val('result', 'any'), props=('C18',),
                   opts={'verify_only': True, 'no_search': True, 'no_model_replay': True, 'shards': 8},
                   note='statement slice of _node_representer lifted mechanically from the working tree on every run (see DESIGN 2.10); flag values are None, bool or int'))


def _reg_all(R):
    register_elision(R)
    register(R)
    register_dump(R)
