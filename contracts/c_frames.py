"""Frame-only contracts of the flag-pushing functions: what they may touch, nothing about the values.
Used by the container contracts (C17), which only care that the two views stay equal."""
import z3
from pyvc import sym
from pyvc.sym import Val, is_ref, r_of, mk_str, MapT
from pyvc.contract import Contract, P, Raises, Loop
from pyvc.values import SV, ClassV, TupleV
from . import spec as S
from .c_adopt import SHAPES, kw_valid

N = 'awesomeyaml/nodes/node.py::'
C = 'awesomeyaml/nodes/composed.py::'
FLAGMODS = ['_priority', '_pyyaml_node'] + S.IMPLICIT
USE_FRAMES = {N + 'ConfigNodeMeta.__call__': 'callee-frame', C + 'ComposedNode._propagate_implicit_values': 'frame',
              C + 'ComposedNode._propagate_priority': 'frame'}


def register(R):
    comp = lambda: P.node('self', 'ComposedNode')
    R.add(Contract(C + 'ComposedNode._propagate_implicit_values', [comp()], name='frame', modifies=lambda c: [(f, 'all') for f in S.IMPLICIT],
                   props=('C17',), opts={'callee': False, 'use': USE_FRAMES, 'no_search': True, 'assume_children_are_objects': True},
                   loops={0: Loop(lambda c, L: [], mod_locals=['child', 'fix'], mod_fields=S.IMPLICIT)},
                   note='frame: only the three implicit flags (of any node) are written'))
    R.add(Contract(C + 'ComposedNode._propagate_priority', [comp()], name='frame', modifies=lambda c: [('_priority', 'all')],
                   props=('C17',), opts={'callee': False, 'use': USE_FRAMES, 'no_search': True, 'assume_children_are_objects': True},
                   loops={0: Loop(lambda c, L: [], mod_locals=['child'], mod_fields=['_priority'])},
                   note='frame: only priorities are written'))

    W = ('_priority', '_delete', '_safe', '_implicit_safe', '_default_safe', '_metadata')
    for fn in ('_replace_self', '_replace_other'):
        R.add(Contract(N + 'ConfigNode.' + fn, [P.node('self', 'ConfigNode'), P.node('other', 'ConfigNode'), P.const('allow_promotions', False)], name='frame-no-promotion',
                       requires=lambda c: [('valid', z3.And(S.valid_flags(c.pre, c.ref('self')), S.valid_flags(c.pre, c.ref('other'))))],
                       modifies=lambda c: [(f, [c.ref('self')]) for f in W] + [(f, 'all') for f in S.IMPLICIT],
                       ensures=[('result-is-self', lambda c: c.rt == c['self'])], result=lambda c, it: c.a['self'], props=('C13', 'C17'),
                       opts={'callee': False, 'use': USE_FRAMES, 'no_search': True, 'assume_children_are_objects': True},
                       note='frame: without promotion only the flag fields and metadata of the receiver (and implicit flags below it) are written; the receiver is returned'))

    # adoption, frame only (one verification instance per keyword shape)
    def make(shape, keys):
        def setup(it, fr, sc):
            r = it.run.alloc('dict')
            m = MapT.empty()
            for k in keys:
                m = it.map_set_simpl(m, mk_str(k), it.run.fresh('kw_' + k))
            it.heap.put_m(r, m)
            fr.loc['kwargs'] = SV(sym.mk_ref(r), hint=frozenset(['dict']))
            fr.loc['cls'] = ClassV('ConfigNode')
            fr.loc['args'] = TupleV([it.spec_args['value']])
        return Contract(N + 'ConfigNodeMeta.__call__', [P.node('value', 'ConfigNode')], name='adopt-frame-' + shape,
                        modifies=lambda c: [(f, 'all') for f in FLAGMODS], ensures=[('adopted-node-is-returned-itself', lambda c: c.rt == c['value'])],
                        props=('C17',), opts={'setup': setup, 'verify_only': True, 'bind_partial': True, 'no_search': True, 'use': USE_FRAMES})
    for shape, keys in SHAPES.items():
        R.add(make(shape, keys))

    def value_of(c):
        return c.a['args'].items[0].t

    def isnode(c):
        v = value_of(c)
        return z3.And(is_ref(v), c.eng.isinstance_term(c.pre.cls(r_of(v)), 'ConfigNode'))

    def result(c, it):
        return SV(sym.mk_ref(it.run.fresh('newnode', sym.I)))

    def post_effect(c, it):
        rr = r_of(c.rt)
        floor = getattr(it.run, 'floor', z3.IntVal(-1000000))
        it.run.assume(z3.Implies(rr < 0, rr < floor))
        it.run.floor = z3.If(rr < 0, rr, floor)

    R.add(Contract(N + 'ConfigNodeMeta.__call__', [], name='callee-frame',
                   requires=lambda c: [('deduction-form', z3.BoolVal(c.a['cls'].name == 'ConfigNode' and len(c.a['args'].items) == 1))],
                   ensures=[('make', lambda c: [('same', z3.Implies(isnode(c), c.rt == value_of(c))),
                                                ('fresh', z3.Implies(z3.Not(isnode(c)), r_of(c.rt) < -1000000)),
                                                ('node', c.eng.isinstance_term(c.post.cls(r_of(c.rt)), 'ConfigNode'))])],
                   modifies=lambda c: [(f, 'all') for f in FLAGMODS], result=result, assume_only=True, props=('C17',),
                   opts={'callee': False, 'post_effect': post_effect},
                   note='ConfigNode(value, **flags), frame only: an existing node is returned itself (proved: adopt-frame-*), a plain value is wrapped in a NEW node (assumed); only flag fields of existing objects are written'))
