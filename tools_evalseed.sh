#!/bin/sh
# usage: tools_evalseed.sh <Cxx> [other property ids to run as well]
# evaluates a seeded change left uncommitted in the scratch worktree /tmp/seed/<Cxx>:
#   baseline suite unchanged, demonstration fails with / passes without the change, then our checks against the changed tree
ID=$1; shift
W=/tmp/seed/$ID
cd $W || exit 2
git diff > /tmp/seed/$ID.patch.diff
echo "== diff: $(git diff --stat | tail -1)"
PYTHONPATH=$W /venv/bin/python -m pytest -q -p no:cacheprovider --timeout=900 --continue-on-collection-errors --junitxml=/tmp/seed/$ID.junit.xml >/dev/null 2>&1
python3 - /tmp/seed/$ID.junit.xml <<'PY'
import sys,xml.etree.ElementTree as ET
t=ET.parse(sys.argv[1]); ok=sorted(str(tc.get('classname'))+'::'+str(tc.get('name')) for tc in t.iter('testcase') if not list(tc))
base=open('/tmp/before.xml.ok').read().split('\n')
print('== suite with change: passed', len(ok), 'same as baseline:', ok==base)
PY
echo "== demo WITH change:"; PYTHONPATH=$W timeout 120 /venv/bin/python demo_$ID.py 2>&1 | tail -3; echo "exit=$?"
git apply -R /tmp/seed/$ID.patch.diff; echo "== demo WITHOUT change:"; PYTHONPATH=$W timeout 120 /venv/bin/python demo_$ID.py 2>&1 | tail -2; git apply /tmp/seed/$ID.patch.diff
cd /verif
for P in $ID "$@"; do echo "== check $P against changed tree"; ./check $P --repo $W 2>&1 | grep -v WARN | grep -E "^VIOL|^UNDEC|^CHECK|^C[0-9]|^    " | cut -c1-300 | head -8; done
