#!/usr/bin/env python3
"""per-property inventory of what the registry holds: contracts to be proved, assumed contracts, other tasks"""
import sys, re, collections
sys.path.insert(0, '/verif')
from pyvc.check import load_registry
R = load_registry()
props = [f'C{i:02d}' for i in range(1, 21)]
for p in props:
    proved, assumed = collections.OrderedDict(), collections.OrderedDict()
    for c in R.all():
        names = ' '.join(n for n, _ in c.ensures) + ' ' + ' '.join(r.name for r in c.raises) + ' ' + ' '.join(c.opts.get('watch', {}).values())
        if p in c.props or p in re.findall(r'C\d\d', names):
            short = c.key.split('::')[1]
            (assumed if c.assume_only else proved).setdefault(short, []).append(c.name)
    tasks = [(t.kind, t.id) for t in R.tasks if p in t.props]
    print(f'## {p}')
    print('  under contract:', '; '.join(f'{k} ({len(v)})' if len(v) > 1 else k for k, v in proved.items()))
    print('  assumed       :', '; '.join(f'{k}#{",".join(v)}' for k, v in assumed.items()))
    for k, i in tasks:
        print(f'  {k:10s}    : {i}')
