#!/usr/bin/env python3
"""Confirm a seeded change kept under /verif/seeded/<id>/ and run our checks against it.

    tools/seedcheck.py <id> [--props C01,C12] [--tier quick] [--keep]

For the seed it makes a scratch git worktree of /repo (HEAD) under /tmp/seedcheck/<id>, and there
  1. runs the repository's test suite and the demonstration on the unchanged code (demo must exit 0),
  2. applies patch.diff, checks the package still imports, runs the suite again (set of passing tests must be identical) and
     the demonstration again (must exit non-zero),
  3. runs `./check <prop> --repo <worktree>` for the property the seed breaks (and any extra ones given),
and records all of that under "confirmation" in seeded/<id>/meta.json.  The worktree is removed afterwards.
Nothing registered in MANIFEST.json depends on this tool or on /tmp."""
import json
import os
import subprocess
import sys
import time
import xml.etree.ElementTree as ET

HERE = os.path.dirname(os.path.dirname(os.path.abspath(__file__)))
REPO = '/repo'
PY = '/venv/bin/python'


def sh(cmd, cwd=None, env=None, timeout=1800):
    e = dict(os.environ)
    e.update(env or {})
    p = subprocess.run(cmd, cwd=cwd, env=e, shell=isinstance(cmd, str), capture_output=True, text=True, timeout=timeout)
    return p.returncode, p.stdout + p.stderr


def suite(w, tag):
    out = f'/tmp/seedcheck/{tag}.xml'
    sh([PY, '-m', 'pytest', '-q', '-p', 'no:cacheprovider', '--timeout=900', '--continue-on-collection-errors', f'--junitxml={out}'],
       cwd=w, env={'PYTHONPATH': w})
    t = ET.parse(out)
    ok = sorted(str(tc.get('classname')) + '::' + str(tc.get('name')) for tc in t.iter('testcase') if not list(tc))
    os.remove(out)
    return ok


def main():
    args = sys.argv[1:]
    sid = args[0]
    props = None
    tier = 'quick'
    keep = False
    i = 1
    while i < len(args):
        if args[i] == '--props':
            props = args[i + 1].split(',')
            i += 2
        elif args[i] == '--tier':
            tier = args[i + 1]
            i += 2
        elif args[i] == '--keep':
            keep = True
            i += 1
        else:
            raise SystemExit('bad argument ' + args[i])
    d = os.path.join(HERE, 'seeded', sid)
    meta_p = os.path.join(d, 'meta.json')
    meta = json.load(open(meta_p)) if os.path.exists(meta_p) else {}
    props = props or meta.get('checked_with') or [meta.get('breaks', sid[:3])]
    demo = [f for f in sorted(os.listdir(d)) if f.startswith('demo_') and f.endswith('.py') and 'target' not in f][0]
    os.makedirs('/tmp/seedcheck', exist_ok=True)
    w = f'/tmp/seedcheck/{sid}'
    sh(['git', '-C', REPO, 'worktree', 'remove', '--force', w])
    rc, out = sh(['git', '-C', REPO, 'worktree', 'add', '--detach', w, 'HEAD'])
    if rc:
        raise SystemExit(out)
    conf = {'repo_head': sh(['git', '-C', REPO, 'rev-parse', 'HEAD'])[1].strip(), 'when': time.strftime('%Y-%m-%d %H:%M:%S')}
    try:
        for f in os.listdir(d):
            if f not in ('patch.diff', 'meta.json'):
                sh(['cp', '-r', os.path.join(d, f), w])
        base = suite(w, sid + '.before')
        rc0, o0 = sh([PY, demo], cwd=w, env={'PYTHONPATH': w}, timeout=600)
        conf['demo_unchanged'] = {'exit': rc0, 'tail': o0.strip().splitlines()[-3:]}
        rc, out = sh(['git', 'apply', os.path.join(d, 'patch.diff')], cwd=w)
        if rc:
            raise SystemExit('patch does not apply: ' + out)
        rc, out = sh([PY, '-c', 'import awesomeyaml, awesomeyaml.yaml, awesomeyaml.builder, awesomeyaml.config; print(awesomeyaml.__file__)'], cwd=w, env={'PYTHONPATH': w})
        conf['imports'] = (rc == 0 and out.strip().startswith(w))
        after = suite(w, sid + '.after')
        conf['suite'] = {'passed_before': len(base), 'passed_after': len(after), 'identical': base == after}
        rc1, o1 = sh([PY, demo], cwd=w, env={'PYTHONPATH': w}, timeout=600)
        conf['demo_changed'] = {'exit': rc1, 'tail': [l[:300] for l in o1.strip().splitlines()[-4:]]}
        conf['confirmed'] = bool(conf['imports'] and base == after and rc0 == 0 and rc1 != 0)
        checks = {}
        for p in props:
            t0 = time.time()
            rc, out = sh([os.path.join(HERE, 'check'), p, '--tier', tier, '--repo', w], cwd=HERE, timeout=7200)
            lines = out.splitlines()
            viol = [l[:400] for l in lines if l.startswith('VIOLATION')]
            checks[p] = {'tier': tier, 'exit': rc, 'wall_s': round(time.time() - t0, 1),
                         'violations': sorted({l.split('obligation=')[-1] for l in viol}),
                         'undecided': sorted({l[:200] for l in lines if l.startswith('UNDECIDED')})[:6],
                         'summary': [l for l in lines if l.startswith(p + ' tier=')]}
        conf['checks'] = checks
        conf['caught'] = any(c['exit'] == 1 for c in checks.values())
    finally:
        if not keep:
            sh(['git', '-C', REPO, 'worktree', 'remove', '--force', w])
            sh(['git', '-C', REPO, 'worktree', 'prune'])
    meta['confirmation'] = conf
    meta.setdefault('breaks', sid[:3])
    meta['ran'] = [f'tools/seedcheck.py {sid}' + (f' --props {",".join(props)}' if props else '')]
    json.dump(meta, open(meta_p, 'w'), indent=1)
    print(sid, 'confirmed' if conf['confirmed'] else 'NOT-CONFIRMED', 'suite-identical' if conf['suite']['identical'] else 'SUITE-DIFFERS',
          'demo', conf['demo_unchanged']['exit'], '->', conf['demo_changed']['exit'])
    for p, c in conf['checks'].items():
        print('  ', p, 'exit', c['exit'], c['wall_s'], 's', '; '.join(c['violations'])[:500])
        for u in c['undecided'][:2]:
            print('      ', u)
    return 0


if __name__ == '__main__':
    sys.exit(main())
