#!/bin/sh
# usage: tools/saveseed.sh <round> Cxx : copy the seeded change of round <round> from /tmp/seed<round>/Cxx into /verif/seeded/Cxx-<round>
RD=$1; ID=$2; W=/tmp/seed$RD/$ID; D=/verif/seeded/$ID-$RD
mkdir -p $D
git -C $W diff -- awesomeyaml > $D/patch.diff
for f in $(git -C $W status --short | grep '^??' | awk '{print $2}'); do cp -r $W/$f $D/; done
ls $D | tr '\n' ' '; wc -l < $D/patch.diff
