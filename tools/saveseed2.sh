#!/bin/sh
# usage: tools/saveseed2.sh Cxx : copy the round-2 seeded change from /tmp/seed2/Cxx into /verif/seeded/Cxx-2
ID=$1; W=/tmp/seed2/$ID; D=/verif/seeded/$ID-2
mkdir -p $D
git -C $W diff -- awesomeyaml > $D/patch.diff
for f in $(git -C $W status --short | grep '^??' | awk '{print $2}'); do cp -r $W/$f $D/; done
ls $D | tr '\n' ' '; wc -l < $D/patch.diff
