#!/bin/sh
# Offline build of the check interpreter: Python 3.12 (same as /venv) + z3 + cvc5 + crosshair,
# with /venv's site-packages (PyYAML, editable awesomeyaml -> /repo) on the path.
set -e
cd "$(dirname "$0")"
if [ ! -x .venv/bin/python ] || ! .venv/bin/python -c "import z3, yaml" 2>/dev/null; then
  rm -rf .venv
  /venv/bin/python -m venv .venv
  PIP_NO_INDEX=1 .venv/bin/pip install -q --no-index --find-links /opt/veriftools/wheels \
      z3-solver cvc5 jsonschema crosshair-tool icontract deal hypothesis
  echo "import site; site.addsitedir('/venv/lib/python3.12/site-packages')" \
      > .venv/lib/python3.12/site-packages/zz_venv.pth
fi
.venv/bin/python -c "import z3, cvc5, yaml, awesomeyaml; print('setup ok', z3.get_version_string())"
