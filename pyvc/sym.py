"""Sorts and the value / heap model of the VC generator (DESIGN 2.3).

* `Val`  : none | bool | int | str | ref | undef | flt   (dynamic Python values)
* heap   : one z3 array per attribute name, Int (object identity) -> Val
* dict   : ordered map  (len, keyat: Int->Val, pos: Val->Int (-1 absent), val: Val->Val), per object identity
* list   : (len, item: Int->Val), per object identity
* set    : membership array Val->Bool ; set of paths: Seq(Val)->Bool
* path   : z3 Seq(Val)   (NodePath values are used immutably by the code under contract)

Python ints are mathematical integers (exact).  Strings are z3 strings.  Floats are opaque.
"""
import z3

Val = z3.Datatype('Val')
Val.declare('none')
Val.declare('bool', ('b', z3.BoolSort()))
Val.declare('int', ('i', z3.IntSort()))
Val.declare('str', ('s', z3.StringSort()))
Val.declare('ref', ('r', z3.IntSort()))
Val.declare('undef')
Val.declare('flt', ('f', z3.IntSort()))
Val = Val.create()

I = z3.IntSort()
B = z3.BoolSort()
ValArr = z3.ArraySort(I, Val)            # field heap: ref -> Val
IntArr = z3.ArraySort(I, I)
KeyAt = z3.ArraySort(I, Val)             # position -> key   (also list items)
PosOf = z3.ArraySort(Val, I)             # key -> position
ValOf = z3.ArraySort(Val, Val)           # key -> value
ValSet = z3.ArraySort(Val, B)
PathSort = z3.SeqSort(Val)
PathSet = z3.ArraySort(PathSort, B)

NONE = Val.none
UNDEF = Val.undef
TRUE = Val.bool(z3.BoolVal(True))
FALSE = Val.bool(z3.BoolVal(False))


def mk_int(n):
    return Val.int(z3.IntVal(n) if isinstance(n, int) else n)


def mk_bool(b):
    return Val.bool(z3.BoolVal(b) if isinstance(b, bool) else b)


def mk_str(s):
    return Val.str(z3.StringVal(s) if isinstance(s, str) else s)


def mk_ref(r):
    return Val.ref(z3.IntVal(r) if isinstance(r, int) else r)


def const_to_val(c):
    if c is None:
        return NONE
    if isinstance(c, bool):
        return mk_bool(c)
    if isinstance(c, int):
        return mk_int(c)
    if isinstance(c, str):
        return mk_str(c)
    raise TypeError(f'no Val for constant {c!r}')


is_none = Val.is_none
is_bool = Val.is_bool
is_int = Val.is_int
is_str = Val.is_str
is_ref = Val.is_ref
is_undef = Val.is_undef
b_of = Val.b
i_of = Val.i
s_of = Val.s
r_of = Val.r


def simp(t):
    return z3.simplify(t)


def py_of_val(t):
    """concrete python value of a fully simplified Val term, or raise ValueError"""
    t = simp(t)
    if z3.is_app(t):
        d = t.decl().name()
        if d == 'none':
            return None
        if d == 'bool' and (z3.is_true(t.arg(0)) or z3.is_false(t.arg(0))):
            return z3.is_true(t.arg(0))
        if d == 'int' and z3.is_int_value(t.arg(0)):
            return t.arg(0).as_long()
        if d == 'str' and z3.is_string_value(t.arg(0)):
            return t.arg(0).as_string()
    raise ValueError(f'not concrete: {t}')


def is_concrete(t):
    try:
        py_of_val(t)
        return True
    except ValueError:
        return False


# ---------------------------------------------------------------------------
# heap content kinds; each is an array indexed by object identity
HEAP_SPECIAL = {
    '$cls': IntArr,
    '$mlen': IntArr, '$mkeyat': z3.ArraySort(I, KeyAt), '$mpos': z3.ArraySort(I, PosOf), '$mval': z3.ArraySort(I, ValOf),
    '$llen': IntArr, '$litem': z3.ArraySort(I, KeyAt),
    '$set': z3.ArraySort(I, ValSet), '$pset': z3.ArraySort(I, PathSet),
    '$path': z3.ArraySort(I, PathSort),     # for objects that store a path (rare)
    '$ypath': z3.ArraySort(I, z3.ArraySort(I, PathSort)),   # ghost: paths yielded by a generator, by position
    '$lpos': z3.ArraySort(I, z3.ArraySort(Val, I)),         # ghost: position at which a value was (last) appended to a list
    '$ypos': z3.ArraySort(I, z3.ArraySort(I, I)),           # ghost: position at which an object was (last) yielded, by object identity
}


def heap_sort(field):
    return HEAP_SPECIAL.get(field, ValArr)


class Heap:
    """Mutable mapping field -> z3 array; cheap to snapshot (dict copy)."""

    def __init__(self, arrays=None, tag='H0'):
        self.a = dict(arrays or {})
        self.tag = tag

    def snapshot(self):
        return Heap(self.a, self.tag)

    def arr(self, field):
        if field not in self.a:
            self.a[field] = z3.Const(f'{self.tag}!{field}', heap_sort(field))
        return self.a[field]

    def get(self, field, ref):
        return z3.Select(self.arr(field), ref)

    def put(self, field, ref, value):
        self.a[field] = z3.Store(self.arr(field), ref, value)

    # ordered map of object `ref`
    def m(self, ref):
        return MapT(self.get('$mlen', ref), self.get('$mkeyat', ref), self.get('$mpos', ref), self.get('$mval', ref))

    def put_m(self, ref, m):
        self.put('$mlen', ref, m.len)
        self.put('$mkeyat', ref, m.keyat)
        self.put('$mpos', ref, m.pos)
        self.put('$mval', ref, m.val)

    def l(self, ref):
        return ListT(self.get('$llen', ref), self.get('$litem', ref))

    def put_l(self, ref, l):
        self.put('$llen', ref, l.len)
        self.put('$litem', ref, l.item)

    def cls(self, ref):
        return self.get('$cls', ref)


class MapT:
    """ordered map value (a tuple of z3 terms)"""

    def __init__(self, ln, keyat, pos, val):
        self.len, self.keyat, self.pos, self.val = ln, keyat, pos, val

    @staticmethod
    def empty():
        return MapT(z3.IntVal(0), z3.K(I, UNDEF), z3.K(Val, z3.IntVal(-1)), z3.K(Val, UNDEF))

    @staticmethod
    def fresh(name):
        return MapT(z3.Int(name + '!len'), z3.Const(name + '!keyat', KeyAt), z3.Const(name + '!pos', PosOf), z3.Const(name + '!val', ValOf))

    def has(self, k):
        return z3.Select(self.pos, k) >= 0

    def get(self, k):
        return z3.Select(self.val, k)

    def set(self, k, v):
        h = self.has(k)
        return MapT(z3.If(h, self.len, self.len + 1),
                    z3.If(h, self.keyat, z3.Store(self.keyat, self.len, k)),
                    z3.If(h, self.pos, z3.Store(self.pos, k, self.len)),
                    z3.Store(self.val, k, v))

    def delete(self, k):
        """k must be present"""
        p = z3.Select(self.pos, k)
        i = z3.Int('!i')
        kk = z3.Const('!k', Val)
        keyat = z3.Lambda([i], z3.If(i < p, z3.Select(self.keyat, i), z3.Select(self.keyat, i + 1)))
        pos = z3.Lambda([kk], z3.If(kk == k, z3.IntVal(-1), z3.If(z3.Select(self.pos, kk) > p, z3.Select(self.pos, kk) - 1, z3.Select(self.pos, kk))))
        return MapT(self.len - 1, keyat, pos, z3.Store(self.val, k, UNDEF))

    def wf(self):
        i = z3.Int('!wi')
        k = z3.Const('!wk', Val)
        return z3.And(self.len >= 0,
                      z3.ForAll([i], z3.Implies(z3.And(0 <= i, i < self.len), z3.Select(self.pos, z3.Select(self.keyat, i)) == i)),
                      z3.ForAll([k], z3.And(z3.Select(self.pos, k) >= -1, z3.Select(self.pos, k) < self.len,
                                            z3.Implies(z3.Select(self.pos, k) >= 0, z3.Select(self.keyat, z3.Select(self.pos, k)) == k))))

    def eq(self, o):
        return z3.And(self.len == o.len, self.keyat == o.keyat, self.pos == o.pos, self.val == o.val)

    def same_entries(self, o):
        """same keys in the same order with the same values (observational equality; ignores junk beyond len)"""
        i = z3.Int('!ei')
        k = z3.Const('!ek', Val)
        return z3.And(self.len == o.len,
                      z3.ForAll([i], z3.Implies(z3.And(0 <= i, i < self.len), z3.Select(self.keyat, i) == z3.Select(o.keyat, i))),
                      z3.ForAll([k], z3.And(z3.Select(self.pos, k) == z3.Select(o.pos, k),
                                            z3.Implies(z3.Select(self.pos, k) >= 0, z3.Select(self.val, k) == z3.Select(o.val, k)))))

    def terms(self):
        return [self.len, self.keyat, self.pos, self.val]


class ListT:
    def __init__(self, ln, item):
        self.len, self.item = ln, item

    @staticmethod
    def empty():
        return ListT(z3.IntVal(0), z3.K(I, UNDEF))

    @staticmethod
    def fresh(name):
        return ListT(z3.Int(name + '!len'), z3.Const(name + '!item', KeyAt))

    def get(self, i):
        return z3.Select(self.item, i)

    def set(self, i, v):
        return ListT(self.len, z3.Store(self.item, i, v))

    def append(self, v):
        return ListT(self.len + 1, z3.Store(self.item, self.len, v))

    def insert(self, p, v):
        """p already clamped to [0, len]"""
        i = z3.Int('!i')
        item = z3.Lambda([i], z3.If(i < p, z3.Select(self.item, i), z3.If(i == p, v, z3.Select(self.item, i - 1))))
        return ListT(self.len + 1, item)

    def delete(self, p):
        i = z3.Int('!i')
        item = z3.Lambda([i], z3.If(i < p, z3.Select(self.item, i), z3.Select(self.item, i + 1)))
        return ListT(self.len - 1, item)

    def eq(self, o):
        return z3.And(self.len == o.len, self.item == o.item)

    def same_entries(self, o):
        i = z3.Int('!ei')
        return z3.And(self.len == o.len, z3.ForAll([i], z3.Implies(z3.And(0 <= i, i < self.len), z3.Select(self.item, i) == z3.Select(o.item, i))))


def truthy_prim(t):
    """truthiness of a Val that is not an object reference"""
    return z3.If(is_none(t), False,
                 z3.If(is_bool(t), b_of(t),
                       z3.If(is_int(t), i_of(t) != 0,
                             z3.If(is_str(t), z3.Length(s_of(t)) != 0,
                                   z3.If(is_undef(t), False, True)))))
