"""Interpreter-level value wrappers."""
import z3
from . import sym
from .sym import Val


class SV:
    """a dynamic Python value as a z3 term of sort Val.  `hint`: static class bound for object references
    (a frozenset of class names) used only to prune dispatch; never an assumption on its own - the
    corresponding `$cls` constraint is always in the path condition."""
    __slots__ = ('t', 'hint')

    def __init__(self, t, hint=None):
        self.t = t
        self.hint = hint

    def __repr__(self):
        return f'SV({sym.simp(self.t)})'


class PathV:
    """NodePath value: z3 Seq(Val)"""
    __slots__ = ('s',)

    def __init__(self, s):
        self.s = s

    def __repr__(self):
        return f'PathV({self.s})'


class TupleV:
    __slots__ = ('items',)

    def __init__(self, items):
        self.items = tuple(items)

    def __repr__(self):
        return f'TupleV{self.items}'


class FuncV:
    """function / closure / bound method of the package (executed from its AST or through its contract)"""
    __slots__ = ('fi', 'closure', 'bound', 'bound_cls')

    def __init__(self, fi, closure=None, bound=None, bound_cls=None):
        self.fi = fi
        self.closure = closure
        self.bound = bound            # receiver value (or None)
        self.bound_cls = bound_cls

    def __repr__(self):
        return f'FuncV({self.fi.key})'


class LambdaV:
    __slots__ = ('node', 'closure', 'fi')

    def __init__(self, node, closure, fi):
        self.node, self.closure, self.fi = node, closure, fi


class ClassV:
    __slots__ = ('name',)

    def __init__(self, name):
        self.name = name

    def __repr__(self):
        return f'ClassV({self.name})'


class ModV:
    __slots__ = ('name',)

    def __init__(self, name):
        self.name = name

    def __repr__(self):
        return f'ModV({self.name})'


class BuiltinV:
    __slots__ = ('name', 'bound')

    def __init__(self, name, bound=None):
        self.name = name
        self.bound = bound

    def __repr__(self):
        return f'BuiltinV({self.name})'


class AynsV:
    """`obj.ayns` (bound) or `Cls.ayns` (unbound, obj None) or `super().ayns`"""
    __slots__ = ('obj', 'cls', 'after')

    def __init__(self, obj, cls=None, after=None):
        self.obj, self.cls, self.after = obj, cls, after


class SuperV:
    __slots__ = ('obj', 'after')

    def __init__(self, obj, after):
        self.obj, self.after = obj, after


class IterV:
    """lazy iterable: kind in items|keys|values|enumerate|reversed|range|list|gen|zip|pyseq"""
    __slots__ = ('kind', 'a', 'b')

    def __init__(self, kind, a=None, b=None):
        self.kind, self.a, self.b = kind, a, b

    def __repr__(self):
        return f'IterV({self.kind})'


class ExcV:
    __slots__ = ('cls', 'args', 'fields', 'cause', 'lineno')

    def __init__(self, cls, args=(), fields=None, cause=None, lineno=None):
        self.cls = cls
        self.args = args
        self.fields = fields or {}
        self.cause = cause
        self.lineno = lineno

    def __repr__(self):
        return f'ExcV({self.cls})'


class OpaqueV:
    """a value the generator does not interpret (error-message text, threading.local slot, ...)"""
    __slots__ = ('tag', 'payload')

    def __init__(self, tag, payload=None):
        self.tag = tag
        self.payload = payload

    def __repr__(self):
        return f'OpaqueV({self.tag})'


class SlotV:
    """threading.local() instance held in a class/module attribute; `.value` lives in heap field `$slot:<name>` of ref 0"""
    __slots__ = ('name',)

    def __init__(self, name):
        self.name = name


def sv_const(c):
    return SV(sym.const_to_val(c))


NONE = SV(sym.NONE)
