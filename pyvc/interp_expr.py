"""Expression evaluation (mixin of Interp)."""
import ast
import z3
from . import sym
from .sym import Val, MapT, ListT
from .values import *
from .core import *


class ExprMixin:

    def ev(self, n, fr):
        m = getattr(self, 'ev_' + type(n).__name__, None)
        if m is None:
            self.unsupported(n, f'expression {type(n).__name__}')
        return m(n, fr)

    # ---- leaves
    def ev_Constant(self, n, fr):
        c = n.value
        if c is None or isinstance(c, (bool, int, str)):
            return sv_const(c)
        if isinstance(c, float):
            return SV(Val.flt(z3.IntVal(hash(c) % (10 ** 9))))
        if isinstance(c, bytes):
            return OpaqueV('bytes', c)
        if c is Ellipsis:
            return OpaqueV('ellipsis')
        self.unsupported(n, f'constant {c!r}')

    def ev_Name(self, n, fr):
        f, v = fr.lookup(n.id)
        if f is not None:
            return v
        return self.eng.global_name(self, fr, n.id, n)

    def ev_JoinedStr(self, n, fr):
        # f-string: evaluated only for its side-effect-free operands; the text is opaque unless all parts are concrete
        parts = []
        concrete = True
        for p in n.values:
            if isinstance(p, ast.Constant):
                parts.append(p.value)
            else:
                concrete = False
        if concrete:
            return sv_const(''.join(parts))
        return SV(Val.str(self.run.fresh('fstr', z3.StringSort())))

    def ev_Tuple(self, n, fr):
        return TupleV([self.ev(e, fr) for e in n.elts])

    def ev_List(self, n, fr):
        r = self.run.alloc('list')
        l = ListT.empty()
        for e in n.elts:
            if isinstance(e, ast.Starred):
                for x in self.concrete_iter(self.ev(e.value, fr), e, fr):
                    l = l.append(self.sv(x, e).t)
            else:
                l = l.append(self.sv(self.ev(e, fr), e).t)
        self.heap.put_l(r, ListT(sym.simp(l.len), l.item))
        return SV(sym.mk_ref(r), hint=frozenset(['list']))

    def ev_Dict(self, n, fr):
        r = self.run.alloc('dict')
        m = MapT.empty()
        for k, v in zip(n.keys, n.values):
            if k is None:
                src = self.ev(v, fr)
                m = self.map_update_from(m, src, v, fr)
            else:
                m = self.map_set_simpl(m, self.sv(self.ev(k, fr), k).t, self.store_val(self.ev(v, fr), v))
        self.heap.put_m(r, m)
        return SV(sym.mk_ref(r), hint=frozenset(['dict']))

    def store_val(self, v, node):
        """Val term to store in a container / field"""
        if isinstance(v, SV):
            return v.t
        if isinstance(v, (PathV, TupleV, FuncV, ClassV, OpaqueV, LambdaV, BuiltinV, ModV)):
            # boxed: keep the interpreter value in a side table, addressed by a fresh object identity
            r = self.run.alloc('$box')
            self.run.boxes[r.as_long()] = v
            return sym.mk_ref(r)
        return self.sv(v, node).t

    def unbox(self, t):
        t = sym.simp(t)
        if z3.is_app(t) and t.decl().name() == 'ref' and z3.is_int_value(t.arg(0)):
            b = self.run.boxes.get(t.arg(0).as_long())
            if b is not None:
                return b
        return SV(t)

    def map_set_simpl(self, m, k, v):
        m2 = m.set(k, v)
        return MapT(sym.simp(m2.len), sym.simp(m2.keyat), sym.simp(m2.pos), sym.simp(m2.val))

    def map_update_from(self, m, src, node, fr):
        srcv = self.sv(src, node)
        sm = self.heap.m(sym.r_of(srcv.t))
        if z3.is_int_value(sym.simp(sm.len)):
            for k, v in self.concrete_items(src, node, fr):
                m = self.map_set_simpl(m, k, v)
            return m
        # dict.update with a mapping of symbolic shape: axiomatised (built-in semantics, trusted)
        new = MapT.fresh(f'upd!{self.run.nfresh}')
        self.run.nfresh += 1
        k = z3.Const('!uk', Val)
        body = z3.And(
            new.has(k) == z3.Or(m.has(k), sm.has(k)),
            z3.Implies(sm.has(k), new.get(k) == sm.get(k)),
            z3.Implies(z3.Not(sm.has(k)), new.get(k) == m.get(k)),
            z3.Implies(m.has(k), z3.Select(new.pos, k) == z3.Select(m.pos, k)),
            z3.Select(new.pos, k) >= -1, z3.Select(new.pos, k) < new.len)
        try:
            ax = z3.ForAll([k], body, patterns=[z3.Select(new.pos, k), z3.Select(new.val, k)])
        except z3.Z3Exception:
            ax = z3.ForAll([k], body)
        self.run.assume(ax)
        self.run.assume(z3.And(new.len >= m.len, new.len >= sm.len, new.len <= m.len + sm.len))
        return new

    def concrete_items(self, src, node, fr):
        """(key term, value term) pairs of a dict whose shape is concrete on this path"""
        src = self.sv(src, node)
        r = sym.r_of(src.t)
        m = self.heap.m(r)
        n = sym.simp(m.len)
        if not z3.is_int_value(n):
            self.unsupported(node, 'unpacking a mapping whose size is symbolic')
        out = []
        for i in range(n.as_long()):
            k = sym.simp(z3.Select(m.keyat, i))
            out.append((k, sym.simp(z3.Select(m.val, k))))
        return out

    def ev_Set(self, n, fr):
        self.unsupported(n, 'set literal')

    def ev_Lambda(self, n, fr):
        return LambdaV(n, fr, fr.fi)

    def ev_IfExp(self, n, fr):
        c = sym.simp(self.truth(self.ev(n.test, fr), fr, n))
        if not (z3.is_true(c) or z3.is_false(c)):
            from .interp_stmt import _simple_expr
            if _simple_expr(n.body) and _simple_expr(n.orelse):
                a = self.try_merge_operand(NONE, c, True, n.body, fr, n)
                if a is not None:
                    b = self.try_merge_operand(NONE, c, False, n.orelse, fr, n)
                    if b is not None:
                        # a = If(c, body, None), b = If(!c, orelse, None)
                        return SV(sym.simp(z3.If(c, a.t, b.t)))
        if self.run.decide(c, 'ifexp'):
            return self.ev(n.body, fr)
        return self.ev(n.orelse, fr)

    def ev_BoolOp(self, n, fr):
        is_and = isinstance(n.op, ast.And)
        v = self.ev(n.values[0], fr)
        for i, e in enumerate(n.values[1:]):
            c = sym.simp(self.truth(v, fr, n))
            if z3.is_true(c) or z3.is_false(c):
                d = z3.is_true(c)
            else:
                merged = self.try_merge_operand(v, c, is_and, e, fr, n)
                if merged is not None:
                    v = merged
                    continue
                d = self.run.decide(c, 'boolop')
            if is_and and not d:
                return v
            if not is_and and d:
                return v
            v = self.ev(e, fr)
        return v

    def try_merge_operand(self, v, c, is_and, e, fr, n):
        """`v and e` / `v or e` without forking when e is call-free: the operand is evaluated under its guard"""
        from .interp_stmt import _simple_expr
        if not isinstance(v, SV) or not _simple_expr(e):
            return None
        run = self.run
        guard = c if is_and else sym.simp(z3.Not(c))
        snap = (len(run.pc), len(run.obls), run.nfresh, dict(self.heap.a))
        run.no_fork += 1
        run.solver.push()
        run.solver.add(guard)
        n0 = len(run.pc)
        run.pc.append(guard)
        try:
            try:
                w = self.ev(e, fr)
            except (NoForkAbort, Stop, Unsupported):
                del run.pc[snap[0]:]
                del run.obls[snap[1]:]
                run.nfresh = snap[2]
                self.heap.a.clear(); self.heap.a.update(snap[3])
                return None
            extra = run.pc[n0 + 1:]
            del run.pc[n0:]
        finally:
            run.no_fork -= 1
            run.solver.pop()
        if not isinstance(w, SV):
            del run.obls[snap[1]:]
            return None
        for x in extra:
            run.assume(z3.Implies(guard, x))
        return SV(sym.simp(z3.If(guard, w.t, v.t)))

    def ev_UnaryOp(self, n, fr):
        v = self.ev(n.operand, fr)
        if isinstance(n.op, ast.Not):
            return SV(sym.mk_bool(sym.simp(z3.Not(self.truth(v, fr, n)))))
        if isinstance(n.op, ast.USub):
            return SV(sym.mk_int(-sym.i_of(self.sv(v, n).t)))
        self.unsupported(n, 'unary operator')

    def ev_Compare(self, n, fr):
        left = self.ev(n.left, fr)
        res = None
        for op, rn in zip(n.ops, n.comparators):
            right = self.ev(rn, fr)
            c = self.compare(op, left, right, fr, n)
            res = c if res is None else z3.And(res, c)
            left = right
        return SV(sym.mk_bool(sym.simp(res)))

    def compare(self, op, a, b, fr, n):
        if isinstance(op, ast.Is):
            return self.py_is(a, b, n)
        if isinstance(op, ast.IsNot):
            return z3.Not(self.py_is(a, b, n))
        if isinstance(op, ast.Eq):
            return self.py_eq(a, b, n)
        if isinstance(op, ast.NotEq):
            return z3.Not(self.py_eq(a, b, n))
        if isinstance(op, (ast.In, ast.NotIn)):
            c = self.contains(b, a, fr, n)
            return c if isinstance(op, ast.In) else z3.Not(c)
        a, b = self.sv(a, n), self.sv(b, n)
        ia, ib = self.as_int(a), self.as_int(b)
        if isinstance(op, ast.Lt):
            return ia < ib
        if isinstance(op, ast.LtE):
            return ia <= ib
        if isinstance(op, ast.Gt):
            return ia > ib
        if isinstance(op, ast.GtE):
            return ia >= ib
        self.unsupported(n, 'comparison operator')

    def as_int(self, v):
        t = v.t
        return sym.simp(z3.If(sym.is_bool(t), z3.If(sym.b_of(t), 1, 0), sym.i_of(t)))

    def contains(self, cont, item, fr, n):
        if isinstance(cont, TupleV):
            return z3.Or([self.py_eq(item, x, n) for x in cont.items] or [z3.BoolVal(False)])
        if isinstance(cont, IterV) and cont.kind == 'pyseq':
            return z3.Or([self.py_eq(item, x, n) for x in cont.a] or [z3.BoolVal(False)])
        if isinstance(cont, OpaqueV) and cont.tag == '__dict__':
            # '_children' in self.__dict__
            name = sym.py_of_val(self.sv(item, n).t)
            return z3.Not(sym.is_undef(self.heap.get(name, sym.r_of(cont.payload.t))))
        if isinstance(cont, OpaqueV):
            return self.eng.opaque_contains(self, cont, item, n)
        cont = self.sv(cont, n)
        r = sym.r_of(cont.t)
        kinds = {}
        for c in self.classes_of(cont):
            m = self.repo.resolve_method(c, '__contains__') if c in self.repo.classes else ('builtin', c, '__contains__')
            if isinstance(m, tuple):
                k = m[1]
            else:
                k = m
            kinds.setdefault(k if isinstance(k, str) else id(k), []).append(c)
            if not isinstance(k, str):
                kinds.setdefault('$fi', {})[id(k)] = k
        fis = kinds.pop('$fi', {})
        k = self.narrow(cont, kinds, 'contains')
        if k in fis:
            res = self.call_func(fis[k], [cont, item], {}, n, fr)
            return self.truth(res, fr, n)
        if k == 'dict':
            return self.heap.m(r).has(self.sv(item, n).t)
        if k == 'list':
            l = self.heap.l(r)
            ln = sym.simp(l.len)
            if z3.is_int_value(ln):
                return z3.Or([self.py_eq(item, self.unbox(z3.Select(l.item, i)), n) for i in range(ln.as_long())] or [z3.BoolVal(False)])
            i = z3.Int('!ci')
            rs = sym.simp(r)
            view = self.run.slice_views.get(rs.as_long()) if z3.is_int_value(rs) else None
            if view is not None:
                base, lo_t, hi_t = view
                return z3.Exists([i], z3.And(lo_t <= i, i < hi_t, z3.Select(base.item, i) == self.sv(item, n).t))
            return z3.Exists([i], z3.And(0 <= i, i < l.len, z3.Select(l.item, i) == self.sv(item, n).t))
        if k == 'set':
            return z3.Select(self.heap.get('$set', r), self.sv(item, n).t)
        if k == 'pset':
            if not isinstance(item, PathV):
                # a set created by set() stores non-path members in its value-set component
                return z3.Select(self.heap.get('$set', r), self.sv(item, n).t)
            return z3.Select(self.heap.get('$pset', r), item.s)
        self.unsupported(n, f'membership test on {k}')

    def ev_BinOp(self, n, fr):
        a = self.ev(n.left, fr)
        b = self.ev(n.right, fr)
        return self.binop(n.op, a, b, fr, n)

    def binop(self, op, a, b, fr, n):
        if isinstance(op, ast.Add) and isinstance(a, PathV):
            return PathV(z3.Concat(a.s, self.as_path(b, n).s))
        if isinstance(op, ast.Add) and isinstance(a, SV) and isinstance(b, PathV):
            return PathV(z3.Concat(self.as_path(a, n).s, b.s))
        a, b = self.sv(a, n), self.sv(b, n)
        ta, tb = sym.simp(a.t), sym.simp(b.t)
        if z3.is_true(sym.simp(sym.is_str(ta))):
            if isinstance(op, ast.Add):
                return SV(Val.str(z3.Concat(sym.s_of(ta), sym.s_of(tb))))
            if isinstance(op, ast.Mult):
                return SV(Val.str(self.run.fresh('strmul', z3.StringSort())))
            if isinstance(op, ast.Mod):
                return SV(Val.str(self.run.fresh('strfmt', z3.StringSort())))
        if z3.is_true(sym.simp(sym.is_ref(ta))):
            if isinstance(op, ast.Add):
                # list + list -> new list
                la, lb = self.heap.l(sym.r_of(ta)), self.heap.l(sym.r_of(tb))
                na, nb = sym.simp(la.len), sym.simp(lb.len)
                if z3.is_int_value(nb):
                    l = la
                    for i in range(nb.as_long()):
                        l = l.append(z3.Select(lb.item, i))
                    r = self.run.alloc('list')
                    self.heap.put_l(r, ListT(sym.simp(l.len), l.item))
                    return SV(sym.mk_ref(r), hint=frozenset(['list']))
            self.unsupported(n, 'operator on objects')
        ia, ib = self.as_int(a), self.as_int(b)
        if isinstance(op, ast.Add):
            return SV(sym.mk_int(ia + ib))
        if isinstance(op, ast.Sub):
            return SV(sym.mk_int(ia - ib))
        if isinstance(op, ast.Mult):
            return SV(sym.mk_int(ia * ib))
        if isinstance(op, ast.FloorDiv):
            return SV(sym.mk_int(ia / ib))
        if isinstance(op, ast.Mod):
            return SV(sym.mk_int(ia % ib))
        self.unsupported(n, f'binary operator {type(op).__name__}')

    def as_path(self, v, n):
        if isinstance(v, PathV):
            return v
        v = self.sv(v, n)
        l = self.heap.l(sym.r_of(v.t))
        ln = sym.simp(l.len)
        if not z3.is_int_value(ln):
            self.unsupported(n, 'list of symbolic length used as a path')
        s = z3.Empty(sym.PathSort)
        for i in range(ln.as_long()):
            s = z3.Concat(s, z3.Unit(sym.simp(z3.Select(l.item, i)))) if i else z3.Unit(sym.simp(z3.Select(l.item, i)))
        return PathV(s)

    # ---- attribute / subscript
    def ev_Attribute(self, n, fr):
        v = self.ev(n.value, fr)
        return self.getattr_(v, n.attr, fr, n)

    def ev_Subscript(self, n, fr):
        v = self.ev(n.value, fr)
        if isinstance(n.slice, ast.Slice):
            return self.slice_get(v, n.slice, fr, n)
        k = self.ev(n.slice, fr)
        return self.subscript_get(v, k, fr, n)

    def slice_get(self, v, sl, fr, n):
        lo = self.ev(sl.lower, fr) if sl.lower is not None else None
        hi = self.ev(sl.upper, fr) if sl.upper is not None else None
        if sl.step is not None:
            self.unsupported(n, 'slice step')
        if isinstance(v, PathV):
            ln = z3.Length(v.s)
            lo_t = self.as_int(self.sv(lo, n)) if lo is not None else z3.IntVal(0)
            hi_t = self.as_int(self.sv(hi, n)) if hi is not None else ln
            lo_t = z3.If(lo_t < 0, ln + lo_t, lo_t)
            hi_t = z3.If(hi_t < 0, ln + hi_t, hi_t)
            return PathV(z3.Extract(v.s, lo_t, hi_t - lo_t))
        if isinstance(v, TupleV):
            lo_c = sym.py_of_val(self.sv(lo, n).t) if lo is not None else None
            hi_c = sym.py_of_val(self.sv(hi, n).t) if hi is not None else None
            return TupleV(v.items[lo_c:hi_c])
        v = self.sv(v, n)
        if z3.is_true(sym.simp(sym.is_str(v.t))):
            return SV(Val.str(self.run.fresh('substr', z3.StringSort())))
        if z3.is_true(sym.simp(sym.is_ref(v.t))) and set(self.classes_of(v)) <= {'list'}:
            l = self.heap.l(sym.r_of(v.t))
            lo_t = self.as_int(self.sv(lo, n)) if lo is not None else z3.IntVal(0)
            hi_t = self.as_int(self.sv(hi, n)) if hi is not None else l.len
            lo_t = z3.If(lo_t < 0, z3.If(l.len + lo_t < 0, 0, l.len + lo_t), z3.If(lo_t > l.len, l.len, lo_t))
            hi_t = z3.If(hi_t < 0, z3.If(l.len + hi_t < 0, 0, l.len + hi_t), z3.If(hi_t > l.len, l.len, hi_t))
            i = z3.Int('!sl')
            r = self.run.alloc('list')
            self.heap.put_l(r, ListT(sym.simp(z3.If(hi_t > lo_t, hi_t - lo_t, 0)), z3.Lambda([i], z3.Select(l.item, i + lo_t))))
            # remembered as a view of the base list: membership tests quantify over the base indices (better triggers)
            self.run.slice_views[r.as_long()] = (l, sym.simp(lo_t), sym.simp(hi_t))
            return SV(sym.mk_ref(r), hint=frozenset(['list']))
        self.unsupported(n, 'slice of this value')

    def subscript_get(self, v, k, fr, n):
        if isinstance(v, TupleV):
            idx = sym.py_of_val(self.sv(k, n).t)
            return v.items[idx]
        if isinstance(v, PathV):
            i = self.as_int(self.sv(k, n))
            i = z3.If(i < 0, z3.Length(v.s) + i, i)
            return SV(v.s[i])
        if isinstance(v, OpaqueV):
            return self.eng.opaque_getitem(self, v, k, n)
        v = self.sv(v, n)
        r = sym.r_of(v.t)
        groups, fis = {}, {}
        for c in self.classes_of(v):
            m = self.repo.resolve_method(c, '__getitem__') if c in self.repo.classes else ('builtin', c, '__getitem__')
            if isinstance(m, tuple):
                groups.setdefault(m[1], []).append(c)
            elif m is None:
                groups.setdefault(None, []).append(c)
            else:
                groups.setdefault(id(m), []).append(c)
                fis[id(m)] = m
        g = self.narrow(v, groups, 'getitem')
        if g in fis:
            return self.call_func(fis[g], [v, k], {}, n, fr)
        kt = self.sv(k, n).t
        if g == 'dict':
            m = self.heap.m(r)
            self.maybe_raise(m.has(kt), 'KeyError', fr, n, 'dict[key]')
            return self.unbox(m.get(kt))
        if g == 'list':
            l = self.heap.l(r)
            i = self.as_int(SV(kt))
            self.maybe_raise(z3.And(-l.len <= i, i < l.len), 'IndexError', fr, n, 'list[index]')
            i = sym.simp(z3.If(i < 0, l.len + i, i))
            return self.unbox(l.get(i))
        self.unsupported(n, f'subscript on {g}')

    # ---- comprehensions (concrete shape only; symbolic ones need `any`/`all` special forms)
    def ev_ListComp(self, n, fr):
        if self.contract.opts.get('opaque_text_comprehensions') and len(n.generators) > 1:
            # text splitting whose result is only handed to compile(): a list of unknown strings
            r = self.run.alloc('list')
            self.heap.put_l(r, ListT.fresh(f'lines!{self.run.nfresh}'))
            self.run.nfresh += 1
            self.run.assume(self.heap.l(r).len >= 1)
            return SV(sym.mk_ref(r), hint=frozenset(['list']))
        items = self.comp_items(n, fr)
        r = self.run.alloc('list')
        l = ListT.empty()
        for x in items:
            l = l.append(self.store_val(x, n))
        self.heap.put_l(r, ListT(sym.simp(l.len), l.item))
        return SV(sym.mk_ref(r), hint=frozenset(['list']))

    def ev_GeneratorExp(self, n, fr):
        return IterV('lazygen', n, fr)

    def comp_items(self, n, fr):
        if len(n.generators) != 1:
            self.unsupported(n, 'nested comprehension')
        g = n.generators[0]
        it = self.ev(g.iter, fr)
        out = []
        sub = Frame_child(fr)
        for x in self.concrete_iter(it, n, fr):
            self.assign(g.target, x, sub)
            ok = True
            for cond in g.ifs:
                if not self.run.decide(self.truth(self.ev(cond, sub), sub, n), 'comp-if'):
                    ok = False
                    break
            if ok:
                out.append(self.ev(n.elt, sub) if not isinstance(n, ast.DictComp) else (self.ev(n.key, sub), self.ev(n.value, sub)))
        return out

    def ev_DictComp(self, n, fr):
        g = n.generators[0]
        it = self.ev(g.iter, fr)
        spec = self.iter_spec(it, n, fr)
        if spec[0] == 'concrete':
            r = self.run.alloc('dict')
            m = MapT.empty()
            for k, v in self.comp_items(n, fr):
                m = self.map_set_simpl(m, self.sv(k, n).t, self.store_val(v, n))
            self.heap.put_m(r, m)
            return SV(sym.mk_ref(r), hint=frozenset(['dict']))
        return self.eng.symbolic_dictcomp(self, n, spec, fr)

    def ev_Starred(self, n, fr):
        self.unsupported(n, 'starred expression here')

    def ev_Call(self, n, fr):
        return self.eval_call(n, fr)

    def ev_Yield(self, n, fr):
        v = self.ev(n.value, fr) if n.value is not None else NONE
        self.do_yield(v, fr, n)
        return NONE

    def ev_NamedExpr(self, n, fr):
        v = self.ev(n.value, fr)
        self.assign(n.target, v, fr)
        return v


def Frame_child(fr):
    from .interp import Frame
    f = Frame(None, closure=fr, defcls=fr.defcls)
    f.catching = fr.catching
    f.fi = fr.fi
    return f
