"""development driver: verify contracts whose key matches a substring"""
import sys, time, importlib
import z3
from pyvc.engine import Engine
from pyvc.contract import Registry
from pyvc.discharge import discharge
from pyvc.core import Unsupported


def main():
    repo = '/repo'
    pat = sys.argv[1] if len(sys.argv) > 1 else ''
    mods = sys.argv[2].split(',') if len(sys.argv) > 2 else ['c_node']
    R = Registry()
    for m in mods:
        importlib.import_module('contracts.' + m).register(R)
    eng = Engine(repo, R)
    for c in R.all():
        if pat not in c.id or c.assume_only:
            continue
        t0 = time.time()
        try:
            res = eng.verify(c)
        except Unsupported as e:
            print(f'UNSUPPORTED {c.id}: {e}')
            continue
        st = {}
        bad = []
        for o in res['obls']:
            d = discharge(o)
            st[d['status']] = st.get(d['status'], 0) + 1
            if d['status'] != 'proved':
                bad.append((o, d))
        print(f'{c.id}: paths={len(res["paths"])} obls={len(res["obls"])} {st} gen={res["gen_s"]:.2f}s total={time.time()-t0:.2f}s')
        for o, d in bad[:6]:
            print('   ', d['status'], o.name, 'path', o.path_id)
            if d['model'] is not None and '-v' in sys.argv:
                print('      model:', str(d['model'])[:1500])


if __name__ == '__main__':
    main()
