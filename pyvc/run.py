"""development driver: verify contracts whose id matches a substring; prints per-obligation timing with -t"""
import sys, time, importlib
import z3
from pyvc.engine import Engine
from pyvc.contract import Registry
from pyvc import discharge as D
from pyvc.core import Unsupported


def main():
    repo = '/repo'
    if '--repo' in sys.argv:
        k = sys.argv.index('--repo')
        repo = sys.argv[k + 1]
        del sys.argv[k:k + 2]
    pat = sys.argv[1] if len(sys.argv) > 1 else ''
    import contracts
    R = Registry(); R.tasks = []
    import os
    for m in list(contracts.ALL) + [x for x in os.environ.get('PYVC_EXTRA_MODULES', '').split(',') if x]:
        mod = importlib.import_module('contracts.' + m); getattr(mod, '_reg_all', mod.register)(R)
    eng = Engine(repo, R)
    verbose = '-t' in sys.argv
    if '-q' in sys.argv:
        D.RLIMIT_QUICK = 2_000_000
    for c in R.all():
        if pat not in c.id or c.assume_only:
            continue
        t0 = time.time()
        try:
            res = eng.verify(c)
        except Unsupported as e:
            print(f'UNSUPPORTED {c.id}: {e}')
            continue
        print(f'{c.id}: paths={len(res["paths"])} obls={len(res["obls"])} gen={res["gen_s"]:.2f}s', flush=True)
        st = {}
        bad = []
        for o in res['obls']:
            t1 = time.time()
            d = D.discharge(o)
            st[d['status']] = st.get(d['status'], 0) + 1
            if verbose or d['status'] != 'proved':
                print(f'   {d["status"]:8s} {time.time()-t1:6.2f}s {o.name} path={o.path_id} {d.get("sliced","")}', flush=True)
            if d['status'] != 'proved' and d['model'] is not None and '-v' in sys.argv:
                print('      model:', str(d['model'])[:1500])
        print(f'   => {st} total={time.time()-t0:.2f}s', flush=True)


if __name__ == '__main__':
    main()
