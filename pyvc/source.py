"""Source loader and class table.

Re-reads the files under <repo>/awesomeyaml on every run (ast.parse); nothing is transcribed.
Functions are addressed by qualified names:

    awesomeyaml/nodes/node.py::ConfigNode._replace_self
    awesomeyaml/nodes/node.py::ConfigNode.ayns.has_priority_over      (nested `class ayns(Namespace)`)
    awesomeyaml/nodes/dict.py::ConfigDict.ayns.set_child              (@namespace('ayns') methods)
    awesomeyaml/nodes/composed.py::ComposedNode.ayns.on_merge_impl.maybe_keep   (nested def)
    awesomeyaml/utils.py::notnone_or                                   (module level)
"""
import ast
import hashlib
import os


class FuncInfo:
    def __init__(self, qualname, node, module, cls=None, in_ayns=False, kind='function', decorators=()):
        self.qualname = qualname          # 'ConfigNode.ayns.merge'
        self.node = node                  # ast.FunctionDef / ast.Lambda
        self.module = module              # ModuleInfo
        self.cls = cls                    # ClassInfo or None
        self.in_ayns = in_ayns
        self.kind = kind                  # function | method | staticmethod | classmethod | property | staticproperty
        self.decorators = decorators      # names of decorators (strings)

    @property
    def key(self):
        return f'{self.module.relpath}::{self.qualname}'

    @property
    def name(self):
        return self.node.name if hasattr(self.node, 'name') else '<lambda>'

    def source_segment(self):
        return ast.get_source_segment(self.module.text, self.node) or ''

    def sha256(self):
        # hash of the function's own source text (docstrings/comments included: any edit shows up)
        return hashlib.sha256(self.source_segment().encode()).hexdigest()

    def lines(self):
        return (self.node.lineno, getattr(self.node, 'end_lineno', self.node.lineno))

    def is_generator(self):
        for n in _walk_own(self.node):
            if isinstance(n, (ast.Yield, ast.YieldFrom)):
                return True
        return False

    def __repr__(self):
        return f'<FuncInfo {self.key}>'


class SliceInfo(FuncInfo):
    """a contiguous run of statements of a function, lifted mechanically (on every run) into a function of its free local names"""

    def __init__(self, parent, qualname, node, stmts, params, returns):
        FuncInfo.__init__(self, qualname, node, parent.module, parent.cls, parent.in_ayns, 'function', ())
        self.parent = parent
        self.stmts = stmts
        self.params = params
        self.returns = returns

    def source_segment(self):
        return '\n'.join(ast.get_source_segment(self.module.text, st) or '' for st in self.stmts)

    def lines(self):
        return (self.stmts[0].lineno, getattr(self.stmts[-1], 'end_lineno', self.stmts[-1].lineno))


def _walk_own(fnode):
    """walk a function body without descending into nested function definitions"""
    todo = list(ast.iter_child_nodes(fnode))
    while todo:
        n = todo.pop()
        yield n
        if isinstance(n, (ast.FunctionDef, ast.Lambda, ast.AsyncFunctionDef, ast.ClassDef)):
            continue
        todo.extend(ast.iter_child_nodes(n))


class ClassInfo:
    def __init__(self, name, node, module, bases):
        self.name = name
        self.node = node
        self.module = module
        self.base_names = bases           # list of names (strings)
        self.methods = {}                 # name -> FuncInfo   (plain class namespace)
        self.ayns = {}                    # name -> FuncInfo   (members of the `ayns` namespace)
        self.consts = {}                  # name -> ast expression (class level assignments)
        self.mro = None                   # list of ClassInfo / builtin names

    def __repr__(self):
        return f'<Class {self.name}>'


class ModuleInfo:
    def __init__(self, relpath, text):
        self.relpath = relpath
        self.text = text
        self.tree = ast.parse(text)
        self.functions = {}               # module level functions: name -> FuncInfo
        self.classes = {}                 # name -> ClassInfo
        self.consts = {}                  # module level simple assignments name -> ast expr
        self.imports = {}                 # local name -> ('module', dotted) | ('from', dotted, name)


def _decorator_names(fn):
    out = []
    for d in fn.decorator_list:
        if isinstance(d, ast.Name):
            out.append(d.id)
        elif isinstance(d, ast.Attribute):
            out.append(ast.unparse(d))
        elif isinstance(d, ast.Call):
            f = ast.unparse(d.func)
            if f == 'namespace':
                out.append('namespace:' + (d.args[0].value if d.args and isinstance(d.args[0], ast.Constant) else '?'))
            else:
                out.append(f + '()')
    return tuple(out)


def _kind_of(decos, in_class):
    names = set(decos)
    if 'staticproperty' in names:
        return 'staticproperty'
    if 'property' in names or any(d.endswith('.setter') or d.endswith('.getter') for d in names):
        if any(d.endswith('.setter') for d in names):
            return 'property_setter'
        return 'property'
    if 'staticmethod' in names:
        return 'staticmethod'
    if 'classmethod' in names:
        return 'classmethod'
    return 'method' if in_class else 'function'


BUILTIN_BASES = {'dict', 'list', 'tuple', 'int', 'str', 'float', 'object', 'type', 'property', 'Exception'}


class Repo:
    """All modules of the package, parsed from the working tree at `root`."""

    PKG = 'awesomeyaml'

    def __init__(self, root):
        self.root = os.path.abspath(root)
        self.modules = {}
        self.classes = {}                 # class name -> ClassInfo (class names are unique in the package)
        self.funcs = {}                   # key -> FuncInfo
        pkg = os.path.join(self.root, self.PKG)
        for dirpath, _, files in os.walk(pkg):
            for fn in sorted(files):
                if fn.endswith('.py'):
                    full = os.path.join(dirpath, fn)
                    rel = os.path.relpath(full, self.root)
                    with open(full, encoding='utf8') as f:
                        text = f.read()
                    self._load_module(rel, text)
        self._synth_scalar_classes()
        for c in self.classes.values():
            self._mro(c)

    # ------------------------------------------------------------------
    def _load_module(self, rel, text):
        m = ModuleInfo(rel, text)
        self.modules[rel] = m
        for st in m.tree.body:
            if isinstance(st, ast.FunctionDef):
                fi = FuncInfo(st.name, st, m, None, False, _kind_of(_decorator_names(st), False), _decorator_names(st))
                m.functions[st.name] = fi
                self._register(fi)
            elif isinstance(st, ast.ClassDef):
                self._load_class(m, st)
            elif isinstance(st, ast.Assign) and len(st.targets) == 1 and isinstance(st.targets[0], ast.Name):
                m.consts[st.targets[0].id] = st.value
            elif isinstance(st, ast.Import):
                for a in st.names:
                    m.imports[a.asname or a.name.split('.')[0]] = ('module', a.name)
            elif isinstance(st, ast.ImportFrom):
                for a in st.names:
                    m.imports[a.asname or a.name] = ('from', '.' * st.level + (st.module or ''), a.name)

    def add_slice(self, key, name, first, last, returns):
        """lift the statements of function `key` from the first one satisfying `first` up to and including the next one satisfying
        `last` into a function `<key>$<name>` whose parameters are the local names the statements read before writing them (module
        level names and builtins excluded), in order of first use, and which returns the local `returns`.  Everything else of the
        function is dropped.  Returns None (nothing registered) when the anchors are not found."""
        import builtins
        parent = self.funcs.get(key)
        if parent is None:
            return None
        body = parent.node.body
        i0 = next((i for i, st in enumerate(body) if first(st)), None)
        if i0 is None:
            return None
        i1 = next((i for i in range(i0, len(body)) if last(body[i])), None)
        if i1 is None:
            return None
        stmts = body[i0:i1 + 1]
        m = parent.module
        known = set(m.imports) | set(m.functions) | set(m.classes) | set(m.consts) | set(dir(builtins))
        assigned, params = set(), []
        for st in stmts:
            # reads are collected before the writes of the same statement; a loop target counts as written for its body
            names = [n for n in ast.walk(st) if isinstance(n, ast.Name)]
            names.sort(key=lambda n: (n.lineno, n.col_offset))
            writes_here = {n.id for n in names if isinstance(n.ctx, (ast.Store, ast.Del))}
            for n in names:
                if isinstance(n.ctx, ast.Load) and n.id not in assigned and n.id not in known and n.id not in params:
                    if n.id in writes_here and not isinstance(st, ast.Assign):
                        # written somewhere in this compound statement: a parameter only if it is read at a position before its first write
                        first_w = min((w.lineno, w.col_offset) for w in names if w.id == n.id and isinstance(w.ctx, (ast.Store, ast.Del)))
                        if (n.lineno, n.col_offset) > first_w:
                            continue
                    params.append(n.id)
            assigned |= writes_here
        fn = ast.FunctionDef(name=parent.node.name + '__' + name.replace('-', '_'),
                             args=ast.arguments(posonlyargs=[], args=[ast.arg(arg=p) for p in params], vararg=None, kwonlyargs=[], kw_defaults=[], kwarg=None, defaults=[]),
                             body=list(stmts) + [ast.Return(value=ast.Name(id=returns, ctx=ast.Load()))], decorator_list=[], returns=None, type_comment=None)
        fn.lineno, fn.col_offset = stmts[0].lineno, 0
        fn.end_lineno = getattr(stmts[-1], 'end_lineno', stmts[-1].lineno)
        ast.fix_missing_locations(fn)
        fi = SliceInfo(parent, parent.qualname + '$' + name, fn, stmts, params, returns)
        self.funcs[fi.key] = fi
        return fi

    def _register(self, fi):
        self.funcs[fi.key] = fi
        # nested defs and lambdas
        self._register_nested(fi, fi.node, fi.qualname)

    def _register_nested(self, parent, fnode, prefix):
        lam_idx = 0
        for n in _walk_own(fnode):
            if isinstance(n, ast.FunctionDef):
                fi = FuncInfo(prefix + '.' + n.name, n, parent.module, parent.cls, parent.in_ayns, 'nested', _decorator_names(n))
                self.funcs[fi.key] = fi
                self._register_nested(fi, n, fi.qualname)

    def _load_class(self, m, cnode, outer=None):
        bases = []
        for b in cnode.bases:
            bases.append(ast.unparse(b))
        ci = ClassInfo(cnode.name, cnode, m, bases)
        m.classes[cnode.name] = ci
        self.classes[cnode.name] = ci
        for st in cnode.body:
            if isinstance(st, ast.FunctionDef):
                decos = _decorator_names(st)
                in_ayns = any(d == 'namespace:ayns' for d in decos)
                kind = _kind_of(decos, True)
                q = f'{ci.name}.ayns.{st.name}' if in_ayns else f'{ci.name}.{st.name}'
                if kind == 'property_setter':
                    q += '.setter'
                fi = FuncInfo(q, st, m, ci, in_ayns, kind, decos)
                if kind == 'property_setter':
                    (ci.ayns if in_ayns else ci.methods)[st.name + '.setter'] = fi
                else:
                    (ci.ayns if in_ayns else ci.methods)[st.name] = fi
                self._register(fi)
            elif isinstance(st, ast.ClassDef):
                if st.name == 'ayns':
                    for s2 in st.body:
                        if isinstance(s2, ast.FunctionDef):
                            decos = _decorator_names(s2)
                            kind = _kind_of(decos, True)
                            q = f'{ci.name}.ayns.{s2.name}'
                            if kind == 'property_setter':
                                q += '.setter'
                                key = s2.name + '.setter'
                            else:
                                key = s2.name
                            fi = FuncInfo(q, s2, m, ci, True, kind, decos)
                            ci.ayns[key] = fi
                            self._register(fi)
                else:
                    # nested helper class (e.g. EvalContext.PartialChild)
                    self._load_class(m, st, outer=ci)
            elif isinstance(st, ast.Assign) and len(st.targets) == 1 and isinstance(st.targets[0], ast.Name):
                ci.consts[st.targets[0].id] = st.value
            elif isinstance(st, ast.If):
                # `if not utils.python_is_at_least(3, 7):` block in ConfigList: dead on every supported
                # interpreter (>= 3.7); recorded in `dropped` by the evidence writer
                pass

    SCALAR_BASES = ['int', 'float', 'bool', 'str', 'NoneType']

    def _synth_scalar_classes(self):
        """ConfigScalar(T) classes are synthesised at run time by ConfigScalarMeta; mirror them as
        pseudo classes `ConfigScalar[T]` with bases (ConfigScalar, T).  The run-time cross-check
        (classtable_check) compares these MROs with the real ones."""
        if 'ConfigScalar' not in self.classes:
            return
        base = self.classes['ConfigScalar']
        for t in self.SCALAR_BASES:
            name = f'ConfigScalar[{t}]'
            ci = ClassInfo(name, base.node, base.module, ['ConfigScalar', t])
            ci.synthetic = True
            self.classes[name] = ci
        # classes deriving from ConfigScalar(str)
        for c in list(self.classes.values()):
            c.base_names = [('ConfigScalar[str]' if b.replace(' ', '') == 'ConfigScalar(str)' else b) for b in c.base_names]

    def _mro(self, c):
        if c.mro is not None:
            return c.mro
        seqs = []
        for b in c.base_names:
            b = b.split('.')[-1] if b not in self.classes else b
            if b in self.classes:
                seqs.append(list(self._mro(self.classes[b])))
            else:
                seqs.append([b])
        seqs.append([(self.classes[b] if b in self.classes else (self.classes[b.split('.')[-1]] if b.split('.')[-1] in self.classes else b.split('.')[-1])) for b in c.base_names])
        res = [c]
        seqs = [list(s) for s in seqs if s]
        while seqs:
            for s in seqs:
                cand = s[0]
                if not any(cand in t[1:] for t in seqs):
                    break
            else:
                raise RuntimeError(f'inconsistent MRO for {c.name}')
            res.append(cand)
            for s in seqs:
                if s and s[0] == cand:
                    del s[0]
            seqs = [s for s in seqs if s]
        c.mro = res
        return res

    # ------------------------------------------------------------------
    def func(self, key):
        if key not in self.funcs:
            raise KeyError(f'function not found in working tree: {key}')
        return self.funcs[key]

    def cls(self, name):
        return self.classes[name]

    def is_subclass(self, cname, base):
        c = self.classes.get(cname)
        if c is None:
            return cname == base
        for k in c.mro:
            n = k.name if isinstance(k, ClassInfo) else k
            if n == base:
                return True
        return False

    def subclasses(self, base):
        return [n for n in self.classes if self.is_subclass(n, base)]

    def resolve_method(self, cname, name, ayns=False, after=None):
        """MRO lookup. `after`: class name; start searching after it (super())."""
        if cname not in self.classes:
            if not ayns and name in _BUILTIN_METHODS.get(cname, ()):
                return ('builtin', cname, name)
            if cname == 'pset' and name in ('add',):
                return ('builtin', 'pset', name)
            return None
        c = self.classes[cname]
        started = after is None
        for k in c.mro:
            if not isinstance(k, ClassInfo):
                if started and not ayns and name in _BUILTIN_METHODS.get(k, ()):
                    return ('builtin', k, name)
                continue
            if not started:
                if k.name == after:
                    started = True
                continue
            tab = k.ayns if ayns else k.methods
            if name in tab:
                return tab[name]
            if not ayns and name in k.consts:
                return ('const', k, k.consts[name])
        return None


_BUILTIN_METHODS = {
    'dict': {'__init__', '__setitem__', '__getitem__', '__delitem__', '__contains__', 'clear', 'pop', 'popitem',
             'items', 'keys', 'values', 'get', 'update', 'setdefault', '__iter__', '__len__', 'copy', '__eq__', '__bool__'},
    'list': {'__init__', '__setitem__', '__getitem__', '__delitem__', '__contains__', 'clear', 'pop', 'append', 'insert',
             'extend', 'remove', 'index', '__iter__', '__len__', '__add__', 'copy', 'reverse', 'sort', 'count', '__eq__',
             '__iadd__', '__imul__', '__bool__'},
    'object': {'__init__', '__setattr__', '__delattr__', '__getattribute__', '__reduce__', '__reduce_ex__', '__new__', '__eq__', '__repr__'},
    'str': {'startswith', 'endswith', 'split', 'strip', 'replace', '__str__', '__eq__', 'find', 'rfind', 'join', 'count', 'encode'},
    'int': {'__eq__'},
}


def census(repo):
    out = {}
    for k, f in repo.funcs.items():
        out[k] = f.lines()
    return out
