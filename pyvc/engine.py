"""Engine: class ids, name resolution, verification driver (generate obligations for one contract)."""
import ast
import time
import z3
from . import sym
from .sym import Val, Heap, MapT, ListT
from .values import *
from .core import *
from .source import Repo, ClassInfo, FuncInfo
from .contract import Contract, P, SpecCtx, Registry
from .interp import Interp as _Base, Frame, EXC_BASES, exc_is
from .interp_expr import ExprMixin
from .interp_stmt import StmtMixin
from .interp_call import CallMixin, _named


class Interp(ExprMixin, StmtMixin, CallMixin, _Base):
    pass


OPAQUE_STR = {'md5.hexdigest', 'str.join', 'str.strip', 'str.replace', 'str.format', 'str.lower', 'str.upper', 'str.rstrip', 'str.lstrip', 'os.linesep', 'os.path.join',
              'os.path.normpath', 'os.path.dirname', 'os.path.expanduser', 'os.getcwd', 'str.hex'}
BUILTIN_CLASSES = ['list', 'dict', 'pset', 'set', '$box', 'tuple', 'function', 'object', 'module', 'NoneType']
BUILTIN_NAMES = {'isinstance', 'len', 'str', 'int', 'bool', 'list', 'dict', 'tuple', 'set', 'type', 'object', 'id',
                 'getattr', 'setattr', 'hasattr', 'super', 'range', 'enumerate', 'reversed', 'zip', 'iter', 'next',
                 'any', 'all', 'abs', 'min', 'max', 'repr', 'print', 'issubclass', 'dir', 'open', 'bytes', 'float',
                 'eval', 'exec', 'compile', 'map', 'filter', 'sorted', 'sum', 'hash', '__builtins__', 'callable', 'globals'}


class Engine:
    def __init__(self, repo_root, registry, opts=None):
        self.repo = Repo(repo_root)
        for sl in getattr(registry, 'slices', []):
            self.repo.add_slice(**sl)
        self.registry = registry
        self.opts = opts or {}
        self.trivial = 0
        self.cur_key = None
        self.boxes = {}
        names = BUILTIN_CLASSES + sorted(self.repo.classes)
        self._cid = {n: i + 1 for i, n in enumerate(names)}
        self._cname = {i: n for n, i in self._cid.items()}
        self.node_classes = set(self.repo.subclasses('ConfigNode')) - {'ConfigNode', 'ComposedNode', 'ConfigScalar', 'ConfigScalarMarker', 'ConfigTuple'}
        self.all_object_classes = (set(self.repo.classes) - {'ConfigNode', 'ComposedNode', 'ConfigScalar', 'ConfigScalarMarker', 'ConfigTuple', 'ConfigNodeMeta',
                                                              'ConfigScalarMeta', 'NamespaceableMeta', 'Namespace', 'BoundNamespace', 'staticproperty',
                                                              'namespaceable_property', 'Namespaceable', 'configbool', 'ConfigNone', 'persistent_id', 'LazyModule',
                                                              'UnquotedNode'} - set(EXC_BASES)) | {'list', 'dict'}
        # concrete (instantiable) node classes; ConfigNode itself is abstract (type deduction), as are the markers
        self.instance_fields = self._scan_instance_fields()
        self.maybe_missing_fields = {'_func', '_delete', '_children'}
        self.class_fields = self._scan_class_fields()
        self.maybe_foreign_fields = {'stages', 'builder', 'filenames', 'ref_point'}
        self.property_names = {n for c in self.repo.classes.values() for n, f in c.methods.items() if f.kind in ('property', 'staticproperty')}
        self.external_effects = {}
        self.witness_fields = {}
        self.field_types = {'_children': 'dict', '_metadata': 'dict', '_eval_stack': 'list', '_eval_cache': 'dict', '_eval_cache_id': 'dict', 'stages': 'list',
                            '_eval_symbols': 'dict', '_removed_nodes': 'dict', 'state_generators': 'list'}
        self.field_hints = {'_func': ['function']}

    # ------------------------------------------------------------------ classes
    def class_id(self, name):
        if name not in self._cid:
            self._cid[name] = len(self._cid) + 1
            self._cname[self._cid[name]] = name
        return self._cid[name]

    def class_name(self, i):
        return self._cname[i]

    def canon_class(self, nm):
        nm = nm.split('.')[-1]
        return {'Sequence': 'Sequence', 'MutableSequence': 'MutableSequence', 'MutableMapping': 'MutableMapping', 'Mapping': 'Mapping'}.get(nm, nm)

    ABC = {'Sequence': ('list', 'tuple'), 'MutableSequence': ('list',), 'Mapping': ('dict',), 'MutableMapping': ('dict',)}

    def classes_under(self, base):
        if base in self.ABC:
            out = set()
            for b in self.ABC[base]:
                out |= set(self.classes_under(b))
            return sorted(out)
        out = [n for n in self._cid if n in self.repo.classes and self.repo.is_subclass(n, base)]
        if base in BUILTIN_CLASSES or base not in self.repo.classes:
            if base in self._cid and base not in out:
                out.append(base)
        return out

    def isinstance_term(self, cls_term, base):
        ids = [self.class_id(c) for c in self.classes_under(base)]
        c = sym.simp(cls_term)
        if z3.is_int_value(c):
            return z3.BoolVal(c.as_long() in ids)
        return z3.Or([cls_term == i for i in ids] or [z3.BoolVal(False)])

    def subclass_term(self, ca, cb):
        """issubclass(type(a), type(b)) for class id terms"""
        ors = []
        for b in self.repo.classes:
            subs = [self.class_id(c) for c in self.classes_under(b)]
            ors.append(z3.And(cb == self.class_id(b), z3.Or([ca == s for s in subs])))
        return z3.Or(ors)

    def is_exception_class(self, name):
        return name in EXC_BASES

    def is_awesomeyaml_error(self, name):
        return exc_is(name, 'Error')

    def _scan_instance_fields(self):
        out = set()
        for m in self.repo.modules.values():
            for n in ast.walk(m.tree):
                if isinstance(n, ast.Attribute) and isinstance(n.ctx, ast.Store) and isinstance(n.value, ast.Name):
                    out.add(n.attr)
        return out

    def _scan_class_fields(self):
        """attribute names a class (or one of its bases) assigns on `self` / on a freshly created instance"""
        own = {}
        for cname, ci in self.repo.classes.items():
            names = set()
            for fi in list(ci.methods.values()) + list(ci.ayns.values()):
                if fi.node is None:
                    continue
                for n in ast.walk(fi.node):
                    if isinstance(n, ast.Attribute) and isinstance(n.ctx, ast.Store) and isinstance(n.value, ast.Name) and n.value.id in ('self', 'new', 'ret'):
                        names.add(n.attr)
            own[cname] = names
        out = {}
        for cname, ci in self.repo.classes.items():
            acc = set()
            for k in ci.mro:
                if isinstance(k, ClassInfo):
                    acc |= own.get(k.name, set())
            out[cname] = acc
        return out

    def is_descriptor_everywhere(self, name):
        return False

    def _rule(self, c, names):
        if c not in self.repo.classes:
            return None
        for nm in names:
            r = self.repo.resolve_method(c, nm)
            if r is not None:
                return nm, r
        return None

    def truth_rule(self, c):
        if c == 'list':
            return 'llen'
        if c == 'dict':
            return 'mlen'
        if c in ('pset', 'set'):
            return 'unsupported-set'
        r = self._rule(c, ['__bool__', '__len__'])
        if r is None:
            if c.startswith('ConfigScalar[') or self.repo.is_subclass(c, 'ConfigScalar'):
                if self.repo.is_subclass(c, 'NoneType'):
                    return 'false'
                return 'sint'
            return 'true'
        nm, m = r
        if isinstance(m, tuple):
            return 'llen' if m[1] == 'list' else 'mlen'
        return ('user', m)

    def len_rule(self, c):
        if c == 'list':
            return 'llen'
        if c == 'dict':
            return 'mlen'
        r = self._rule(c, ['__len__'])
        if r and isinstance(r[1], tuple):
            return 'llen' if r[1][1] == 'list' else 'mlen'
        return f'nolen:{c}'

    def iter_rule(self, c):
        if c in ('list', 'dict'):
            return c
        r = self._rule(c, ['__iter__'])
        if r and isinstance(r[1], tuple):
            return r[1][1]
        return f'noiter:{c}'

    # ------------------------------------------------------------------ names
    def shadows_builtin(self, fr, name):
        m = fr.fi.module if fr.fi else None
        return m is not None and (name in m.functions or name in m.classes or name in m.imports or name in m.consts)

    def global_name(self, it, fr, name, node):
        m = fr.fi.module if fr.fi is not None else None
        f = fr
        while m is None and f is not None:
            m = f.fi.module if f.fi else None
            f = f.closure
        if m is not None:
            if name in m.functions:
                return FuncV(m.functions[name])
            if name in m.classes:
                return ClassV(name)
            if name in m.consts:
                return self.module_const(it, m, name, node)
            if name in m.imports:
                return self.resolve_import(it, m, m.imports[name], node)
        if name in self.repo.classes:
            return ClassV(name)
        if name in EXC_BASES:
            return ClassV(name)
        if name == '__builtins__':
            # the module-level name `__builtins__` of an imported module: a dict object (process-wide state)
            return SV(it.heap.get('$global:__builtins__', z3.IntVal(0)), hint=frozenset(['dict']))
        if name in BUILTIN_NAMES:
            return BuiltinV(name)
        it.unsupported(node, f'unknown global name {name!r}')

    def global_store(self, it, fr, name, v, node):
        m = fr.fi.module
        it.heap.put(f'$global:{m.relpath}:{name}', z3.IntVal(0), it.sv(v, node).t)

    def module_const(self, it, m, name, node):
        expr = m.consts[name]
        key = f'$global:{m.relpath}:{name}'
        if key in it.heap.a or key in self.opts.get('symbolic_globals', ()):
            return SV(it.heap.get(key, z3.IntVal(0)))
        if isinstance(expr, ast.Call) and ast.unparse(expr.func) == 'threading.local':
            return SlotV(f'{m.relpath}:{name}')
        if isinstance(expr, ast.Call) and ast.unparse(expr.func) in ('decorator_factory',):
            return OpaqueV('decorator', name)
        if isinstance(expr, ast.Call) and ast.unparse(expr.func) == 're.compile':
            return OpaqueV('regex', name)
        lam = ast.Lambda(args=ast.arguments(posonlyargs=[], args=[], kwonlyargs=[], kw_defaults=[], defaults=[]), body=expr)
        fr0 = Frame(FuncInfo('<module>', lam, m), defcls=None)
        return it.ev(expr, fr0)

    def resolve_import(self, it, m, imp, node):
        if imp[0] == 'module':
            return ModV(imp[1])
        _, mod, name = imp
        # relative import inside the package
        base = m.relpath.split('/')[:-1]
        lvl = len(mod) - len(mod.lstrip('.'))
        rest = mod.lstrip('.')
        if lvl:
            base = base[:len(base) - (lvl - 1)]
            target_dir = '/'.join(base + (rest.split('.') if rest else []))
            cand = target_dir + '.py'
            if cand in self.repo.modules:
                tm = self.repo.modules[cand]
                if name in tm.functions:
                    return FuncV(tm.functions[name])
                if name in tm.classes:
                    return ClassV(name)
                if name in tm.consts:
                    return self.module_const(it, tm, name, node)
                if name in tm.imports:
                    return self.resolve_import(it, tm, tm.imports[name], node)
            # `from . import errors` / `from .. import utils`
            cand2 = target_dir + '/' + name + '.py' if target_dir else name + '.py'
            if cand2 in self.repo.modules:
                return ModV('pkg:' + cand2)
            cand3 = target_dir + '/' + name + '/__init__.py'
            if cand3 in self.repo.modules:
                return ModV('pkg:' + cand3)
            it.unsupported(node, f'cannot resolve import {mod}.{name}')
        return self.external_name(it, mod, name, node)

    def import_from(self, it, fr, st, a):
        mod = '.' * st.level + (st.module or '')
        return self.resolve_import(it, fr.fi.module, ('from', mod, a.name), st)

    def external_name(self, it, mod, name, node):
        full = f'{mod}.{name}'
        if full in ('functools.partial',):
            return BuiltinV('functools.partial')
        if full.startswith('collections.abc'):
            return OpaqueV('extclass', name)
        return BuiltinV(full)

    def module_attr(self, it, mv, name, node):
        if mv.name.startswith('pkg:'):
            m = self.repo.modules[mv.name[4:]]
            if name in m.functions:
                return FuncV(m.functions[name])
            if name in m.classes:
                return ClassV(name)
            if name in m.consts:
                return self.module_const(it, m, name, node)
            if name in m.imports:
                return self.resolve_import(it, m, m.imports[name], node)
            it.unsupported(node, f'module attribute {mv.name}.{name}')
        full = f'{mv.name}.{name}'
        if mv.name in ('cabc', 'collections.abc'):
            return OpaqueV('extclass', name)
        if mv.name == 'errors' or mv.name.endswith('.errors'):
            m = self.repo.modules['awesomeyaml/errors.py']
            return self.module_attr(it, ModV('pkg:awesomeyaml/errors.py'), name, node)
        if full in ('os.path', 'yaml.error'):
            return ModV(full)
        if full == 'sys.modules':
            return OpaqueV('sys.modules')
        return BuiltinV(full)

    def class_const(self, it, ci, name, expr, node):
        key = f'$classattr:{ci.name}.{name}'
        if key in it.heap.a:
            return SV(it.heap.get(key, z3.IntVal(0)))
        if isinstance(expr, ast.Call) and ast.unparse(expr.func) == 'threading.local':
            return SlotV(f'{ci.name}.{name}')
        fr0 = Frame(None, defcls=ci)
        fr0.fi = FuncInfo('<class>', None, ci.module, ci)
        fr0.loop_ord = {}
        # class-level names visible while evaluating the constant
        for k, e in ci.consts.items():
            if k != name and isinstance(e, ast.Constant):
                fr0.loc[k] = it.ev(e, fr0)
        return it.ev(expr, fr0)

    # ------------------------------------------------------------------ extension points (overridden by contracts/env.py)
    def _no(self, it, node, what):
        it.unsupported(node, what)

    def opaque_contains(self, it, cont, item, n):
        if cont.tag == 'sys.modules':
            f = z3.Function('InSysModules', z3.StringSort(), z3.BoolSort())
            return f(sym.s_of(it.sv(item, n).t))
        if cont.tag == 'dir':
            # `name in dir(type(self))`: uninterpreted predicate of the class and the name
            f = z3.Function('InDir', sym.I, Val, z3.BoolSort())
            tv = cont.payload
            if isinstance(tv, OpaqueV) and tv.tag == 'typeof':
                return f(it.heap.cls(sym.r_of(tv.payload.t)), it.sv(item, n).t)
        self._no(it, n, f'membership in {cont!r}')
    def opaque_getitem(self, it, v, k, n):
        if v.tag == 'sys.modules':
            # some module object registered earlier in this process: nothing is known about its namespace
            r = it.run.alloc('module')
            d = it.run.alloc('dict')
            md = MapT.fresh(f'moddict!{it.run.nfresh}')
            it.heap.put_m(d, md)
            it.run.nfresh += 1
            kk = z3.Const('!mdk', Val)
            it.run.assume(z3.And(md.len >= 0, z3.ForAll([kk], z3.And(z3.Select(md.pos, kk) >= -1, z3.Select(md.pos, kk) < md.len))))     # a real dict
            it.heap.put('$dict', r, sym.mk_ref(d))
            return SV(sym.mk_ref(r), hint=frozenset(['module']))
        self._no(it, n, f'subscript of {v!r}')

    def opaque_setitem(self, it, v, k, x, n):
        if v.tag == 'sys.modules':
            it.run.event('register-module', lineno=getattr(n, 'lineno', None), args=[k, x], index=len(it.run.events))
            return
        self._no(it, n, f'item store on {v!r}')
    def opaque_iter(self, it, v, n, fr):
        if getattr(v, 'tag', None) == 'tuple-of-names':
            # a tuple the generator knows nothing about: some number of arbitrary values
            k = it.run.nfresh
            it.run.nfresh += 1
            ln = z3.Int(f'opaque_len!{k}')
            it.run.assume(ln >= 0)
            f = z3.Function(f'opaque_elem!{k}', z3.IntSort(), Val)
            return ('sym', ln, lambda i: SV(f(i)), None)
        self._no(it, n, f'iteration over {v!r}')
    def opaque_len(self, it, v, n): self._no(it, n, f'len of {v!r}')
    def opaque_isinstance(self, it, v, nm, n): return z3.BoolVal(False)
    def call_opaque(self, it, fv, a, kw, n, fr):
        if callable(fv.payload):
            return fv.payload(it, a, kw, n)
        self._no(it, n, f'call of {fv!r}')
    def construct_external(self, it, cv, a, kw, n, fr): self._no(it, n, f'construction of external class {cv.name}')
    def external_class_attr(self, it, cv, name, n): self._no(it, n, f'attribute {name} of external class {cv.name}')
    def symbolic_dictcomp(self, it, n, spec, fr):
        """{key(x): value(x) for x in <symbolic collection>} without filter: the result is a fresh ordered map described
        element-wise (built-in semantics, trusted); distinctness of the computed keys is an obligation"""
        from .interp_expr import Frame_child
        g = n.generators[0]
        if g.ifs:
            self._no(it, n, 'filtered dict comprehension over a symbolic collection')
        _, ln, elem, snap = spec
        run = it.run
        new = MapT.fresh(f'dc!{run.nfresh}')
        run.nfresh += 1

        def kv(i):
            sub = Frame_child(fr)
            it.assign(g.target, elem(i), sub)
            run.no_fork += 1
            try:
                k = it.ev(n.key, sub)
                v = it.ev(n.value, sub)
            finally:
                run.no_fork -= 1
            return it.sv(k, n).t, it.store_val(v, n)
        i, j = z3.Int('!dci'), z3.Int('!dcj')
        ki, vi = kv(i)
        kj, _ = kv(j)
        kk = z3.Const('!dck', Val)
        run.oblige(f'dictcomp-keys-distinct@{n.lineno}', z3.ForAll([i, j], z3.Implies(z3.And(0 <= i, i < j, j < ln), ki != kj)), kind='safety', lineno=n.lineno)
        run.assume(new.len == ln)
        run.assume(z3.ForAll([i], z3.Implies(z3.And(0 <= i, i < ln),
                                             z3.And(z3.Select(new.keyat, i) == ki, z3.Select(new.pos, ki) == i, z3.Select(new.val, ki) == vi))))
        run.assume(z3.ForAll([kk], z3.And(z3.Select(new.pos, kk) >= -1, z3.Select(new.pos, kk) < ln,
                                          z3.Implies(z3.Select(new.pos, kk) >= 0, z3.Select(new.keyat, z3.Select(new.pos, kk)) == kk))))
        r = run.alloc('dict')
        it.heap.put_m(r, new)
        return SV(sym.mk_ref(r), hint=frozenset(['dict']))
    def str_of_obj(self, it, v, n, fr):
        """str(node): for string scalars (and their subclasses: !xref, !eval, ...) the text they hold (`$sval`)"""
        cl = it.classes_of(v)
        if cl and all(c in self.repo.classes and self.repo.is_subclass(c, 'str') for c in cl):
            t = it.heap.get('$sval', sym.r_of(v.t))
            it.run.assume(sym.is_str(t))
            return SV(t)
        return SV(Val.str(it.run.fresh('strobj', z3.StringSort())))
    def yield_hook(self, it, fr, v, node): pass

    def path_str(self, s):
        f = z3.Function('path_str', sym.PathSort, z3.StringSort())
        return f(s)

    def call_symbolic(self, it, fv, args, kwargs, n, fr):
        """call of a value that is not a package function (the target of a !call/!bind, a user callable): an EFFECT"""
        it.run.event('call-target', lineno=getattr(n, 'lineno', None), args=[fv] + list(args), heap=it.heap.snapshot(), index=len(it.run.events))
        return SV(it.run.fresh('callres'))

    def call_builtin_ext(self, it, name, a, kw, n, fr, as_cm=False):
        eff = self.registry.effects.get(name)
        if eff is not None:
            it.run.event(eff, lineno=getattr(n, 'lineno', None), args=a, heap=it.heap.snapshot(), index=len(it.run.events))
            return self.effect_result(it, name, a, kw, n)
        if name == 'objdict.copy':
            # obj.__dict__.copy(): a dict of the instance attributes the object's class (and its bases) ever assigns; all present
            ov = a[0].payload
            cl = it.classes_of(ov)
            if len(cl) != 1 or cl[0] not in self.class_fields:
                it.unsupported(n, '__dict__.copy() of an object whose class is not fixed')
            r = it.run.alloc('dict')
            m = MapT.empty()
            for f in sorted(self.class_fields[cl[0]]):
                m = it.map_set_simpl(m, sym.mk_str(f), it.heap.get(f, sym.r_of(ov.t)))
            it.heap.put_m(r, m)
            return SV(sym.mk_ref(r), hint=frozenset(['dict']))
        if name == 'objdict.update':
            ov = a[0].payload
            if isinstance(a[1], OpaqueV) and a[1].tag == '__dict__':
                # x.__dict__.update(y.__dict__): every instance attribute the class table knows is copied from y to x
                src = a[1].payload
                for f in sorted(self.instance_fields):
                    it.heap.put(f, sym.r_of(ov.t), it.heap.get(f, sym.r_of(src.t)))
                return NONE
            for kt, vt in it.concrete_items(a[1], n, fr):
                it.heap.put(sym.py_of_val(kt), sym.r_of(ov.t), vt)
            return NONE
        op = self.registry.opaque.get(name)
        if op is not None:
            return op(it, a, kw, n, fr) if callable(op) else SV(it.run.fresh(name.replace('.', '_')))
        if name in OPAQUE_STR:
            # text manipulation whose value is never used for a decision in the functions under contract: an opaque string
            return SV(Val.str(it.run.fresh(name.replace('.', '_'), z3.StringSort())))
        it.unsupported(n, f'external/builtin function {name} has no model (declare it opaque or an effect)')

    def effect_result(self, it, name, a, kw, n):
        return SV(it.run.fresh('eff_' + name.replace('.', '_')))

    def contract_allows(self, contract, exc):
        for rs in contract.raises:
            if exc_is(exc, rs.cls):
                return True
        return False

    # ------------------------------------------------------------------ parameters
    def fresh_param(self, it, p, run, result=False, refs=None):
        """symbolic value for a parameter spec; `refs`: allocator of positive concrete identities"""
        name = p.name
        if p.kind == 'const':
            return sv_const(p.kw['value'])
        if p.kind == 'pyval':
            return p.kw['value']
        if p.kind == 'path':
            return PathV(run.fresh('path_' + name, sym.PathSort))
        if p.kind == 'val':
            t = run.fresh('v_' + name)
            k = p.kw['vkind']
            cons = {
                'any': None, 'bool': sym.is_bool(t), 'int': sym.is_int(t), 'str': sym.is_str(t),
                'optbool': z3.Or(sym.is_none(t), sym.is_bool(t)), 'optint': z3.Or(sym.is_none(t), sym.is_int(t)),
                'optstr': z3.Or(sym.is_none(t), sym.is_str(t)),
                'prim': z3.Or(sym.is_none(t), sym.is_bool(t), sym.is_int(t), sym.is_str(t)),
                'key': z3.Or(sym.is_int(t), sym.is_str(t)),
                'ref': sym.is_ref(t),
            }[k]
            if cons is not None:
                run.assume(cons)
            if k in ('any', 'ref') and not result:
                run.assume(z3.Implies(sym.is_ref(t), sym.r_of(t) > 0))      # arguments denote pre-state objects
            if k == 'ref' or (k == 'any' and result):
                pass
            return SV(t)
        if p.kind in ('node', 'map', 'list', 'pset'):
            if result or refs is None or p.kw.get('symbolic_ref'):
                r = run.fresh('r_' + name, sym.I)
                if p.kw.get('fresh'):
                    # an object the callee created (its contract proves `not alive(result)`): identity below every earlier one
                    floor = getattr(run, 'floor', z3.IntVal(-1000000))
                    run.assume(r < floor)
                    run.floor = r
                elif not p.kw.get('maybe_fresh'):
                    run.assume(r > 0)
                else:
                    # an object that existed when the call was made, or one the callee created (identities below -10^6,
                    # strictly decreasing, hence distinct from everything allocated before or after)
                    floor = getattr(run, 'floor', z3.IntVal(-1000000))
                    run.assume(z3.Or(r > 0, z3.And(r < 0, r >= -run.nalloc), r < floor))
                    run.floor = z3.If(r < floor, r, floor)
            else:
                r = z3.IntVal(p.kw.get('ref') or refs())
            if p.kind == 'node':
                cls = p.kw['cls']
                if isinstance(cls, (list, tuple)):
                    classes = list(cls)
                elif p.kw.get('exact'):
                    classes = [cls]
                else:
                    classes = [c for c in self.classes_under(cls) if c in self.node_classes or c == cls and c not in ('ConfigNode', 'ComposedNode', 'ConfigScalar', 'ConfigScalarMarker')]
                if len(classes) == 1:
                    if z3.is_int_value(r):
                        run.heap.a['$cls'] = z3.Store(run.heap.arr('$cls'), r, z3.IntVal(self.class_id(classes[0])))
                    else:
                        run.assume(run.heap.cls(r) == self.class_id(classes[0]))
                else:
                    run.assume(z3.Or([run.heap.cls(r) == self.class_id(c) for c in classes]))
                return SV(sym.mk_ref(r), hint=frozenset(classes))
            kind = {'map': 'dict', 'list': 'list', 'pset': 'pset'}[p.kind]
            if z3.is_int_value(r):
                run.heap.a['$cls'] = z3.Store(run.heap.arr('$cls'), r, z3.IntVal(self.class_id(kind)))
            else:
                run.assume(run.heap.cls(r) == self.class_id(kind))
            return SV(sym.mk_ref(r), hint=frozenset([kind]))
        if p.kind == 'func':
            return OpaqueV('callable', p.kw['spec'])      # spec: fn(interp, args, kwargs, node) -> value
        raise Unsupported(f'parameter kind {p.kind}')

    # ------------------------------------------------------------------ verification of one contract
    ghost_clauses = {}

    def verify(self, c, max_paths=4000):
        """generate all obligations of contract `c` from the current source; returns dict"""
        t0 = time.time()
        if c.key not in self.repo.funcs:
            raise Unsupported(f'{c.id}: function not found in the working tree (renamed or removed?)')
        fi = self.repo.func(c.key)
        self.cur_key = c.id
        dec = Decider()
        obls, paths, notes = [], [], []
        npaths = 0
        feas_checks = 0
        while dec.work:
            prefix = dec.work.pop()
            run = PathRun(self, prefix)
            run.boxes = {}
            run.skip_kinds = set(c.opts.get('skip_kinds', ()))
            it = Interp(self, run, c, fi)
            outcome = None
            try:
                outcome = self.run_path(it, run, c, fi)
            except PathEnd as pe:
                outcome = ('end', pe.why)
                if pe.why == 'loop body checked':
                    # events performed inside a loop body are gated where the body path ends (the path never reaches a return)
                    sc_ = it.spec_ctx()
                    sc_.interp = it
                    sc_.events = run.events
                    self.check_events(it, run, c, sc_)
            dec.work.extend(run.new_work)
            feas_checks += run.feas_checks
            if outcome[0] == 'end' and outcome[1] in ('infeasible', 'no class feasible', 'pre-false'):
                continue
            npaths += 1
            if npaths > max_paths:
                raise Unsupported(f'{c.id}: more than {max_paths} paths')
            pid = ''.join(str(d) for d in run.trace) or '-'
            for o in run.obls:
                o.path_id = pid
                o.info['args'] = it.spec_args
                o.info['pre'] = it.pre_heap
                obls.append(o)
            paths.append({'labels': list(getattr(run, 'labels', [])), 'id': pid, 'outcome': outcome[0], 'detail': str(outcome[1])[:200] if len(outcome) > 1 else '',
                          'n_obls': len(run.obls), 'events': [(e[0], e[2].get('lineno')) for e in run.events]})
        return {'contract': c, 'fi': fi, 'obls': obls, 'paths': paths, 'gen_s': time.time() - t0, 'feas_checks': feas_checks,
                'ghost_defs': sorted(self.ghost_clauses.get(c.id, ()))}

    def run_path(self, it, run, c, fi):
        counter = [0]

        def refs():
            counter[0] += 1
            return counter[0]
        args = {}
        for p in c.params:
            args[p.name] = self.fresh_param(it, p, run, refs=refs)
        run.next_ref = refs
        it.spec_args = args
        it.pre_heap = run.heap.snapshot()
        it.spec_extra = {}
        sc = it.spec_ctx()
        sc.interp = it
        it.entry_static = {}
        if c.requires is not None:
            from .interp_call import _named3
            for nm, g, meta in _named3(c.requires(sc), 'pre'):
                run.assume(g)
                if meta and meta.get('static'):
                    it.entry_static[nm] = meta
                if meta and meta.get('ghost_def'):
                    self.ghost_clauses.setdefault(c.id, set()).add(nm)
        # the pre-state may have been extended by the precondition (lazy arrays): re-snapshot
        it.pre_heap = run.heap.snapshot()
        if not run.feasible(z3.BoolVal(True)):
            if not run.prefix:
                raise Unsupported(f'{c.id}: precondition unsatisfiable (vacuous contract)')
            raise PathEnd('pre-false')
        fr = Frame(fi, defcls=fi.cls)
        a = fi.node.args
        order = [x.arg for x in a.posonlyargs + a.args]
        pos = []
        kw = {}
        for p in c.params:
            if p.name in order:
                pass
        for nm in order:
            if nm in args:
                pos.append(args[nm])
            else:
                break
        for nm, v in args.items():
            if nm not in order[:len(pos)] and (nm in order or nm in [k.arg for k in a.kwonlyargs]):
                kw[nm] = v
        if a.kwarg and a.kwarg.arg in args:
            kwv = args[a.kwarg.arg]
        if c.opts.get('bind_partial'):
            for nm, v in args.items():
                fr.loc[nm] = v
            for d_name, d in zip([x.arg for x in a.kwonlyargs], a.kw_defaults):
                if d_name not in fr.loc and d is not None:
                    fr.loc[d_name] = it.ev_default(d, fr)
            if c.opts.get('bind_defaults', True):
                # parameters the contract does not mention take the default written in the source (read on every run)
                posn = [x.arg for x in a.posonlyargs + a.args]
                for d_name, d in zip(posn[len(posn) - len(a.defaults):], a.defaults):
                    if d_name not in fr.loc and d_name not in [p.name for p in c.params]:
                        fr.loc[d_name] = it.ev_default(d, fr)
        else:
            it.bind(a, pos, kw, fr, fi.node, fi)
        if a.kwarg and a.kwarg.arg in args:
            fr.loc[a.kwarg.arg] = args[a.kwarg.arg]
        if a.vararg and a.vararg.arg in args:
            fr.loc[a.vararg.arg] = args[a.vararg.arg]
        for nm, v in args.items():
            if nm.startswith('$'):
                it.spec_extra[nm] = v
        if fi.is_generator() and 'contextlib.contextmanager' not in fi.decorators:
            r = run.alloc('list')
            run.heap.put_l(r, ListT.empty())
            fr.yields = r
            it.spec_extra['yields'] = r
            fr.yparts = []
            for j in range(2):
                pr = run.alloc('list')
                run.heap.put_l(pr, ListT.empty())
                fr.yparts.append(pr)
                it.spec_extra[f'yields{j}'] = pr
        if c.opts.get('setup'):
            c.opts['setup'](it, fr, sc)
        it.top_frame = fr
        res = NONE
        try:
            try:
                if 'contextlib.contextmanager' in fi.decorators:
                    body_fn = c.opts.get('cm_body')
                    fr.on_yield = (lambda v: body_fn(it, fr, v)) if body_fn else (lambda v: None)
                rt = [d for d in fi.decorators if d in __import__('pyvc.interp_call', fromlist=['RETHROW']).RETHROW]
                if rt and c.decorators == 'keep':
                    it.exec_rethrow(__import__('pyvc.interp_call', fromlist=['RETHROW']).RETHROW[rt[0]], fi, fr, fi.node)
                else:
                    it.exec_block(fi.node.body, fr)
            except ReturnEx as r_:
                res = r_.value
        except RaiseEx as rx:
            self.check_raise(it, run, c, rx.exc)
            return ('raise', rx.exc.cls)
        self.check_post(it, run, c, res)
        return ('return', '')

    def check_post(self, it, run, c, res):
        sc = it.spec_ctx(res=res)
        sc.interp = it
        sc.events = run.events
        for nm, fn in c.ensures:
            g = fn(sc)
            if g is None:
                continue
            for nm2, g2 in _named(g, nm):
                run.oblige(f'post:{nm2}', g2, kind='post', props=_props_of(nm2))
        for rs in c.raises:
            if rs.exact and rs.when is not None:
                run.oblige(f'raises-exact:{rs.name}.normal', z3.Not(rs.when(it.spec_ctx())), kind='post')
        self.check_frame(it, run, c, sc)
        self.check_events(it, run, c, sc)

    def check_frame(self, it, run, c, sc):
        if c.opts.get('no_frame'):
            return
        mods = c.modifies(sc) if c.modifies is not None else []
        allowed = {}
        for field, refs in mods:
            allowed.setdefault(field, []).append(refs)
        if '$litem' in allowed:
            allowed.setdefault('$lpos', []).extend(allowed['$litem'])      # ghost bookkeeping goes with the items
        for field, arr in run.heap.a.items():
            pre = it.pre_heap.a.get(field)
            if pre is None:
                pre = z3.Const(f'H0!{field}', sym.heap_sort(field))
            if arr.eq(pre):
                continue
            if field.startswith('$slot') or field.startswith('$global') or field.startswith('$classattr'):
                r = z3.IntVal(0)
                cond = z3.BoolVal(True)
            else:
                r = run.fresh('fr', sym.I)
                cond = r > 0          # objects allocated by the function itself (negative ids) are not framed
            al = allowed.get(field, [])
            if 'all' in al:
                continue
            exc = []
            for refs in al:
                if callable(refs):
                    exc.append(refs(r))
                else:
                    exc.extend([r == x for x in refs])
            goal = z3.Implies(z3.And(cond, z3.Not(z3.Or(exc or [z3.BoolVal(False)]))), z3.Select(arr, r) == z3.Select(pre, r))
            run.oblige(f'frame:{field}', goal, kind='frame')

    def check_events(self, it, run, c, sc):
        gate = c.opts.get('gates')
        if not gate:
            if run.events and not c.opts.get('allow_effects') and not c.effects:
                for tag, pc, kw in run.events:
                    run.obls.append(Obl(f'effect-undeclared:{tag}@{kw.get("lineno")}', 'dominance', pc, z3.BoolVal(False), self.cur_key, kw.get('lineno')))
            return
        for tag, pc, kw in run.events:
            g = gate.get(tag) or gate.get('*')
            if g is None:
                run.obls.append(Obl(f'effect-ungated:{tag}@{kw.get("lineno")}', 'dominance', pc, z3.BoolVal(False), self.cur_key, kw.get('lineno')))
                continue
            sc.cur_event = (tag, pc, kw)
            goal = g(sc, kw)
            # an event tag that names properties (e.g. 'C05.prefix') scopes its obligation to those properties
            run.obls.append(Obl(f'dominance:{tag}@{kw.get("lineno")}', 'dominance', pc, goal, self.cur_key, kw.get('lineno'), props=_props_of(tag) or c.props))

    def check_raise(self, it, run, c, exc):
        sc = it.spec_ctx(exc=exc)
        sc.interp = it
        sc.events = run.events
        matched = [rs for rs in c.raises if exc_is(exc.cls, rs.cls)]
        if not matched:
            run.oblige(f'unexpected-raise:{exc.cls}@{exc.lineno}', z3.BoolVal(False), kind='raise', lineno=exc.lineno)
            return
        for rs in matched:
            if rs.when is not None:
                run.oblige(f'raises:{rs.name}.when@{exc.lineno}', rs.when(sc), kind='raise', lineno=exc.lineno, props=_props_of(rs.name))
        ens = c.opts.get('ensures_on_raise')
        if ens:
            for nm, fn in ens:
                g = fn(sc)
                if g is not None:
                    run.oblige(f'raise-post:{nm}', g, kind='post', props=_props_of(nm))
        self.check_events(it, run, c, sc)


def _props_of(name):
    import re
    return tuple(sorted(set(re.findall(r'C\d\d', name))))
