"""Replay of a counter-model against the real code (DESIGN 2.7).

model -> witness (JSON-able description of real objects and arguments)
witness -> real objects (real classes of the tree under check) -> real call -> abstraction of the
pre- and post-state into concrete heaps -> the failed clause evaluated by the same spec text."""
import importlib
import json
import os
import sys
import z3
from . import sym
from .sym import Val, Heap, MapT, ListT
from .values import *
from .contract import SpecCtx

NODE_FIELDS = ['_priority', '_delete', '_allow_new', '_safe', '_implicit_delete', '_implicit_allow_new', '_implicit_safe',
               '_default_safe', '_source_file', '_idx', '_func', '_pyyaml_node']
MAX_ITEMS = 6
_DEFS = []
_LOADED_ROOT = None
MAX_DEPTH = 4


# ----------------------------------------------------------------------------- model -> witness
def jval(t):
    t = sym.simp(t)
    d = t.decl().name()
    if d == 'none':
        return None
    if d == 'undef':
        return {'undef': True}
    if d == 'bool':
        return bool(z3.is_true(t.arg(0)))
    if d == 'int':
        return t.arg(0).as_long()
    if d == 'str':
        return t.arg(0).as_string()
    if d == 'ref':
        return {'ref': t.arg(0).as_long()}
    if d == 'flt':
        return {'flt': t.arg(0).as_long()}
    raise ValueError(f'cannot export {t}')


class Concretizer:
    def __init__(self, eng, model, heap):
        self.eng, self.m, self.h = eng, model, heap
        self.objects = {}

    def ev(self, t):
        return self.m.eval(t, model_completion=True)

    def val(self, t, depth=0):
        v = jval(self.ev(t))
        if isinstance(v, dict) and 'ref' in v:
            self.obj(v['ref'], depth + 1)
        return v

    def map_items(self, ref, depth):
        mt = self.h.m(z3.IntVal(ref))
        n = self.ev(mt.len).as_long()
        n = max(0, min(n, MAX_ITEMS))
        out = []
        for i in range(n):
            k = self.ev(z3.Select(mt.keyat, i))
            v = self.ev(z3.Select(mt.val, k))
            out.append([jval(k), self.val(v, depth)])
        return out

    def list_items(self, ref, depth):
        lt = self.h.l(z3.IntVal(ref))
        n = self.ev(lt.len).as_long()
        n = max(0, min(n, MAX_ITEMS))
        return [self.val(z3.Select(lt.item, i), depth) for i in range(n)]

    def obj(self, ref, depth=0):
        if ref in self.objects:
            return
        cid = self.ev(self.h.cls(z3.IntVal(ref))).as_long()
        try:
            cname = self.eng.class_name(cid)
        except KeyError:
            cname = 'ConfigScalar[int]'
        o = {'cls': cname}
        self.objects[ref] = o
        if depth > MAX_DEPTH:
            o['truncated'] = True
            return
        if cname == 'dict':
            o['items'] = self.map_items(ref, depth)
            return
        if cname == 'list':
            o['items'] = self.list_items(ref, depth)
            return
        if cname in ('pset', 'set', '$box'):
            return
        r = z3.IntVal(ref)
        o['fields'] = {}
        if cname in self.eng.repo.classes and self.eng.repo.is_subclass(cname, 'ConfigNode'):
            for f in NODE_FIELDS:
                if f == '_pyyaml_node':
                    o['fields'][f] = None
                    continue
                if f == '_func' and not self.eng.repo.is_subclass(cname, 'FunctionNode'):
                    continue
                o['fields'][f] = jval(self.ev(self.h.get(f, r)))
                if isinstance(o['fields'][f], dict) and 'ref' in o['fields'][f]:
                    o['fields'][f] = None
            md = jval(self.ev(self.h.get('_metadata', r)))
            o['metadata'] = self.map_items(md['ref'], depth) if isinstance(md, dict) and 'ref' in md else []
            for kv in o['metadata']:
                if isinstance(kv[1], dict):
                    kv[1] = 0
            if self.eng.repo.is_subclass(cname, 'ComposedNode'):
                ch = jval(self.ev(self.h.get('_children', r)))
                o['children'] = self.map_items(ch['ref'], depth) if isinstance(ch, dict) and 'ref' in ch else []
                if self.eng.repo.is_subclass(cname, 'dict'):
                    o['dict_items'] = self.map_items(ref, depth)
                if self.eng.repo.is_subclass(cname, 'list'):
                    o['list_items'] = self.list_items(ref, depth)
            elif self.eng.repo.is_subclass(cname, 'ConfigScalar'):
                o['sval'] = jval(self.ev(self.h.get('$sval', r)))
        else:
            for f in self.eng.witness_fields.get(cname, []):
                o['fields'][f] = self.val(self.h.get(f, r), depth)

    def arg(self, p, v):
        if isinstance(v, SV):
            return {'val': self.val(v.t)}
        if isinstance(v, PathV):
            s = self.ev(v.s)
            n = self.ev(z3.Length(v.s)).as_long()
            return {'path': [jval(self.ev(v.s[i])) for i in range(min(n, 6))]}
        return {'skip': True}


def make_witness(eng, contract, interp_args, pre_heap, model, slots=()):
    cz = Concretizer(eng, model, pre_heap)
    args = {}
    for p in contract.params:
        v = interp_args.get(p.name)
        if v is None or p.kind in ('pyval', 'func'):
            args[p.name] = {'skip': True}
            continue
        args[p.name] = cz.arg(p, v)
    sl = {}
    for f, arr in pre_heap.a.items():
        if f.startswith('$slot:') or f.startswith('$global:') or f.startswith('$classattr:'):
            sl[f] = jval(cz.ev(z3.Select(arr, 0)))
    return {'contract': contract.id, 'args': args, 'objects': {str(k): v for k, v in cz.objects.items()}, 'slots': sl}


# ----------------------------------------------------------------------------- witness -> real objects
class Builder_:
    def __init__(self, repo_root):
        global _LOADED_ROOT
        if _LOADED_ROOT != repo_root:
            if repo_root in sys.path:
                sys.path.remove(repo_root)
            sys.path.insert(0, repo_root)
            for m in [k for k in sys.modules if k == 'awesomeyaml' or k.startswith('awesomeyaml.')]:
                del sys.modules[m]
            _LOADED_ROOT = repo_root
        self.ay = importlib.import_module('awesomeyaml')
        assert os.path.abspath(self.ay.__file__).startswith(os.path.abspath(repo_root)), (self.ay.__file__, repo_root)
        self.nodes = importlib.import_module('awesomeyaml.nodes.node')
        self.real = {}

    def cls(self, name):
        import awesomeyaml.nodes.scalar as sc
        if name.startswith('ConfigScalar['):
            t = {'int': int, 'float': float, 'bool': bool, 'str': str, 'NoneType': type(None)}[name[13:-1]]
            return sc.ConfigScalar(t)
        for modname in list(sys.modules):
            if modname.startswith('awesomeyaml'):
                mod = sys.modules[modname]
                if hasattr(mod, name) and isinstance(getattr(mod, name), type) and getattr(mod, name).__module__.startswith('awesomeyaml'):
                    return getattr(mod, name)
        for sub in ('append', 'bind', 'call', 'clear', 'extend', 'fstr', 'function', 'import', 'include', 'path', 'prev', 'recurse', 'required', 'stream', 'xref', 'eval', 'tuple'):
            mod = importlib.import_module('awesomeyaml.nodes.' + sub)
            if hasattr(mod, name):
                return getattr(mod, name)
        raise KeyError(name)

    def blank(self, cname, o):
        ConfigNode = self.nodes.ConfigNode
        if cname.startswith('ConfigScalar['):
            sval = o.get('sval')
            t = cname[13:-1]
            dflt = {'int': 0, 'float': 1.5, 'bool': True, 'str': 's', 'NoneType': None}[t]
            ok = {'int': lambda v: isinstance(v, int) and not isinstance(v, bool), 'bool': lambda v: isinstance(v, bool),
                  'str': lambda v: isinstance(v, str), 'NoneType': lambda v: v is None, 'float': lambda v: False}[t]
            return ConfigNode(sval if ok(sval) else dflt)
        C = self.cls(cname)
        import awesomeyaml.builder as b
        mk = {
            'ConfigDict': lambda: C({}), 'ConfigList': lambda: C([]), 'AppendNode': lambda: C([]), 'ExtendNode': lambda: C([]),
            'PathNode': lambda: C([], None), 'RecurseNode': lambda: C([]), 'StreamNode': lambda: C(b.Builder()),
            'FunctionNode': lambda: C('builtins.dict'), 'CallNode': lambda: C('builtins.dict'), 'BindNode': lambda: C('builtins.dict'),
            'ClearNode': lambda: C(None), 'RequiredNode': lambda: C(None), 'IncludeNode': lambda: C('x.yaml'),
            'XRefNode': lambda: C('a'), 'PrevNode': lambda: C('a'), 'EvalNode': lambda: C('1'), 'FStrNode': lambda: C("f'x'"),
            'ImportNode': lambda: C('os'), 'ConfigTuple': lambda: C(()),
        }
        if cname in mk:
            return mk[cname]()
        return C.__new__(C)

    def pv(self, v):
        if isinstance(v, dict):
            if 'ref' in v:
                return self.obj(v['ref'])
            if 'undef' in v:
                return _UNDEF
            if 'flt' in v:
                return 1.5
        return v

    def obj(self, ref):
        ref = int(ref)
        if ref in self.real:
            return self.real[ref]
        o = self.objects[str(ref)]
        cname = o['cls']
        if cname == 'dict':
            d = {}
            self.real[ref] = d
            for k, v in o.get('items', []):
                d[self.pv(k)] = self.pv(v)
            return d
        if cname == 'list':
            l = []
            self.real[ref] = l
            for v in o.get('items', []):
                l.append(self.pv(v))
            return l
        if cname in ('pset', 'set'):
            s = set()
            self.real[ref] = s
            return s
        x = self.blank(cname, o)
        self.real[ref] = x
        for f, v in o.get('fields', {}).items():
            pv = self.pv(v)
            if pv is _UNDEF:
                x.__dict__.pop(f, None)
            else:
                object.__setattr__(x, f, pv) if not isinstance(x, dict) else x.__dict__.__setitem__(f, pv)
        if 'metadata' in o:
            x.__dict__['_metadata'] = {self.pv(k): self.pv(v) for k, v in o['metadata']}
        if 'children' in o:
            x.__dict__['_children'] = {self.pv(k): self.pv(v) for k, v in o['children']}
            if 'dict_items' in o:
                dict.clear(x)
                for k, v in o['dict_items']:
                    dict.__setitem__(x, self.pv(k), self.pv(v))
            if 'list_items' in o:
                list.clear(x)
                for v in o['list_items']:
                    list.append(x, self.pv(v))
        return x

    def build(self, witness):
        self.objects = witness['objects']
        args = {}
        for name, a in witness['args'].items():
            if 'skip' in a:
                continue
            if 'val' in a:
                args[name] = self.pv(a['val'])
            elif 'path' in a:
                from awesomeyaml.nodes.node_path import NodePath
                args[name] = NodePath([self.pv(x) for x in a['path']])
        return args


class _Undef:
    def __repr__(self):
        return '<undef>'


_UNDEF = _Undef()


# ----------------------------------------------------------------------------- real objects -> concrete heap
class Abstractor:
    def __init__(self, eng, ids):
        self.eng = eng
        self.ids = ids            # id(real object) -> ref
        self.keep = []
        self.nfresh = 0
        self.positive = True      # objects first seen in the pre-state get positive identities, later ones negative

    def ref_of(self, x):
        if id(x) not in self.ids:
            self.nfresh += 1
            self.ids[id(x)] = (5000 + self.nfresh) if self.positive else (-1000 - self.nfresh)
            self.keep.append(x)
        return self.ids[id(x)]

    def cname(self, x):
        import awesomeyaml.nodes.scalar as sc
        t = type(x)
        if isinstance(x, sc.ConfigScalarMarker) and t.__name__.startswith('ConfigScalar('):
            return 'ConfigScalar[' + {'configbool': 'bool', 'ConfigNone': 'NoneType'}.get(t._dyn_base.__name__, t._dyn_base.__name__) + ']'
        if t is dict:
            return 'dict'
        if t is list:
            return 'list'
        if t is set:
            return 'pset'
        return t.__name__

    def tv(self, v, heap, depth):
        if v is None:
            return sym.NONE
        if v is _UNDEF:
            return sym.UNDEF
        if isinstance(v, bool):
            return sym.mk_bool(v)
        if isinstance(v, int) and type(v) is int:
            return sym.mk_int(v)
        if isinstance(v, str) and type(v) is str:
            return sym.mk_str(v)
        if isinstance(v, float) and type(v) is float:
            return Val.flt(z3.IntVal(hash(v) % 10 ** 9))
        r = self.ref_of(v)
        self.snap(v, heap, depth + 1)
        return sym.mk_ref(r)

    def put_map(self, heap, r, d, depth):
        m = MapT.empty()
        for k, v in d.items():
            m = m.set(self.tv(k, heap, depth), self.tv(v, heap, depth))
        heap.put_m(z3.IntVal(r), MapT(sym.simp(m.len), sym.simp(m.keyat), sym.simp(m.pos), sym.simp(m.val)))

    def put_list(self, heap, r, l, depth):
        lt = ListT.empty()
        for v in l:
            lt = lt.append(self.tv(v, heap, depth))
        heap.put_l(z3.IntVal(r), ListT(sym.simp(lt.len), lt.item))

    def snap(self, x, heap, depth=0):
        key = ('done', id(heap), id(x))
        if key in self.ids or depth > 8:
            return
        self.ids[key] = True
        r = self.ref_of(x)
        cn = self.cname(x)
        heap.put('$cls', z3.IntVal(r), z3.IntVal(self.eng.class_id(cn)))
        if type(x) is dict:
            self.put_map(heap, r, x, depth)
            return
        if type(x) is list:
            self.put_list(heap, r, x, depth)
            return
        if type(x) is set:
            arr = z3.K(sym.PathSort, z3.BoolVal(False))
            for p in x:
                s = z3.Empty(sym.PathSort)
                first = True
                for comp in p:
                    u = z3.Unit(self.tv(comp, heap, depth))
                    s = u if first else z3.Concat(s, u)
                    first = False
                arr = z3.Store(arr, s, True)
            heap.put('$pset', z3.IntVal(r), arr)
            return
        d = getattr(x, '__dict__', {})
        for f in set(NODE_FIELDS) | set(self.eng.witness_fields.get(cn, [])) | {'_metadata', '_children'}:
            if f in d:
                heap.put(f, z3.IntVal(r), self.tv(d[f], heap, depth))
            else:
                heap.put(f, z3.IntVal(r), sym.UNDEF)
        if isinstance(x, dict):
            self.put_map(heap, r, {k: dict.__getitem__(x, k) for k in dict.keys(x)}, depth)
        if isinstance(x, list):
            self.put_list(heap, r, [list.__getitem__(x, i) for i in range(list.__len__(x))], depth)
        import awesomeyaml.nodes.scalar as sc
        if isinstance(x, sc.ConfigScalarMarker) and hasattr(x, '_dyn_base'):
            try:
                heap.put('$sval', z3.IntVal(r), self.tv(x._get_native_value(), heap, depth))
            except Exception:
                pass


def concrete_heap(tag):
    class CH(Heap):
        def arr(self, field):
            if field not in self.a:
                srt = sym.heap_sort(field)
                if srt == sym.ValArr:
                    self.a[field] = z3.K(sym.I, sym.UNDEF)
                elif srt == sym.IntArr:
                    self.a[field] = z3.K(sym.I, z3.IntVal(0))
                else:
                    self.a[field] = z3.Const(f'{tag}!{field}', srt)
            return self.a[field]

        def snapshot(self):
            h = CH(self.a, self.tag)
            return h
    return CH(tag=tag)


def resolve_callable(key):
    """the real function for a contract key (module path :: qualified name)"""
    rel, qual = key.split('::')
    modname = rel[:-3].replace('/', '.')
    if modname.endswith('.__init__'):
        modname = modname[:-9]
    mod = importlib.import_module(modname)
    parts = qual.split('.')
    obj = getattr(mod, parts[0])
    i = 1
    while i < len(parts):
        p = parts[i]
        if p == 'ayns':
            ns = obj.__dict__['ayns'] if 'ayns' in obj.__dict__ else getattr(obj, 'ayns')
            ep = ns._resolve_endpoint(parts[i + 1]) if parts[i + 1] in ns._names else None
            if ep is None:
                ep = getattr(obj.ayns, parts[i + 1])
            obj = ep
            i += 2
            continue
        obj = obj.__dict__[p] if isinstance(obj, type) and p in obj.__dict__ else getattr(obj, p)
        i += 1
    while isinstance(obj, (staticmethod, classmethod)):
        obj = obj.__func__
    if isinstance(obj, property):
        obj = obj.fget
        while isinstance(obj, (staticmethod,)):
            obj = obj.__func__
        if not callable(obj):
            obj = obj.__func__
    return obj


def run_witness(eng, contract, clause_name, witness, repo_root, kind='post'):
    """returns dict(verdict=violates|holds|invalid|error, detail=...)"""
    try:
        b = Builder_(repo_root)
        args = b.build(witness)
    except Exception as e:
        return {'verdict': 'error', 'detail': f'cannot build witness: {type(e).__name__}: {e}'}
    ids = {id(o): r for r, o in b.real.items()}
    ab = Abstractor(eng, ids)
    pre = concrete_heap('RPRE')
    for r, o in list(b.real.items()):
        ab.snap(o, pre)
    for f, v in witness.get('slots', {}).items():
        pre.put(f, z3.IntVal(0), ab.tv(b.pv(v), pre, 0))
    fn = resolve_callable(contract.key)
    fi = eng.repo.func(contract.key)
    order = [a.arg for a in fi.node.args.posonlyargs + fi.node.args.args]
    pos = []
    for nm in order:
        if nm in args:
            pos.append(args[nm])
        else:
            break
    kw = {k: v for k, v in args.items() if k not in order[:len(pos)] and not k.startswith('$')}
    hook = contract.opts.get('replay_setup')
    if hook:
        hook(b, args, witness)
    exc = None
    res = None
    try:
        rc = contract.opts.get('replay_call')
        res = rc(b, args, witness) if rc else fn(*pos, **kw)
        if fi.is_generator() and 'contextlib.contextmanager' not in fi.decorators:
            res = list(res)
    except Exception as e:
        exc = e
    post = concrete_heap('RPOST')
    ab2 = Abstractor(eng, ab.ids)
    ab2.positive = False
    ab2.nfresh = ab.nfresh
    ab2.ids = {k: v for k, v in ab.ids.items() if not (isinstance(k, tuple) and k[0] == 'done')}
    for r, o in list(b.real.items()):
        ab2.snap(o, post)
    rv = None
    if exc is None:
        rv = _abs_value(ab2, res, post)
    # concrete argument wrappers
    cargs = {}
    for p in contract.params:
        a = witness['args'].get(p.name, {})
        if 'val' in a:
            cargs[p.name] = SV(ab2.tv(args[p.name], post, 0))
        elif 'path' in a:
            cargs[p.name] = PathV(_seq([ab2.tv(x, post, 0) for x in args[p.name]]))
    sc_pre = SpecCtx(eng, cargs, pre, pre)
    if contract.opts.get('replay_extra'):
        sc_pre.x = contract.opts['replay_extra'](b, args, witness, lambda v: ab2.tv(v, post, 0))
    defs = eng.ghost_defs(b.real, ids) if getattr(eng, 'ghost_defs', None) else []
    global _DEFS
    _DEFS = defs
    if contract.requires is not None:
        from .interp_call import _named
        for nm, g in _named(contract.requires(sc_pre), 'pre'):
            if not _holds(g):
                return {'verdict': 'invalid', 'detail': f'witness does not satisfy the precondition clause {nm}'}
    outcome = f'raised {type(exc).__name__}: {exc}' if exc is not None else f'returned {_short(res)}'
    sc = SpecCtx(eng, cargs, pre, post, rv, exc=exc)
    sc.events = []
    rx = contract.opts.get('replay_extra')
    if rx:
        sc.x = rx(b, args, witness, lambda v: ab2.tv(v, post, 0))
        sc_pre.x = sc.x
    if kind in ('post', 'frame'):
        if exc is not None:
            allowed = [rs for rs in contract.raises if _exc_matches(exc, rs.cls)]
            if allowed:
                return {'verdict': 'holds', 'detail': f'real call {outcome} (allowed by the contract)'}
            return {'verdict': 'violates', 'detail': f'real call {outcome}; contract allows no such exception', 'outcome': outcome}
        from .interp_call import _named
        found = False
        for rs in contract.raises:
            if rs.exact and rs.when is not None and (clause_name == '*' or rs.name in clause_name):
                if _holds(rs.when(sc)):
                    return {'verdict': 'violates', 'detail': f'real call {outcome} although the condition of {rs.name} holds', 'outcome': outcome, 'clause': rs.name}
        for nm, fn_ in contract.ensures:
            for nm2, g in _named(fn_(sc), nm):
                if clause_name == '*' or nm2 == clause_name or clause_name.endswith(nm2):
                    found = True
                    ok = _holds(g)
                    if not ok:
                        return {'verdict': 'violates', 'detail': f'real call {outcome}; clause {nm2} evaluates to False', 'outcome': outcome, 'clause': nm2}
        if found or clause_name == '*':
            return {'verdict': 'holds', 'detail': f'real call {outcome}; clause {clause_name} evaluates to True', 'outcome': outcome}
        return {'verdict': 'error', 'detail': f'clause {clause_name} not found'}
    if kind == 'raise':
        if exc is None:
            return {'verdict': 'holds', 'detail': f'real call {outcome}'}
        allowed = [rs for rs in contract.raises if _exc_matches(exc, rs.cls)]
        if not allowed:
            return {'verdict': 'violates', 'detail': f'real call {outcome}; not allowed by the contract', 'outcome': outcome}
        for rs in allowed:
            if rs.when is not None and not _holds(rs.when(sc)):
                return {'verdict': 'violates', 'detail': f'real call {outcome}; raise condition of {rs.name} is false', 'outcome': outcome}
        return {'verdict': 'holds', 'detail': f'real call {outcome}'}
    return {'verdict': 'error', 'detail': f'no replay for obligation kind {kind}'}


def _exc_matches(exc, clsname):
    for k in type(exc).__mro__:
        if k.__name__ == clsname:
            return True
    return False


def _seq(ts):
    s = z3.Empty(sym.PathSort)
    for i, t in enumerate(ts):
        s = z3.Unit(t) if i == 0 else z3.Concat(s, z3.Unit(t))
    return s


def _abs_value(ab, res, heap):
    if isinstance(res, tuple):
        return TupleV([_abs_value(ab, x, heap) for x in res])
    try:
        return SV(ab.tv(res, heap, 0))
    except Exception:
        return None


def _holds(g):
    if g is None:
        return True
    if isinstance(g, (list, tuple)):
        return all(_holds(x[1] if isinstance(x, tuple) else x) for x in g)
    s = z3.Solver()
    s.set('timeout', 20000)
    for d in _DEFS:
        s.add(d)
    s.add(z3.Not(g))
    r = s.check()
    if r == z3.unsat:
        return True
    if r == z3.sat:
        return False
    raise RuntimeError('clause undecided on concrete state')


def _short(x):
    try:
        s = repr(x)
    except Exception:
        s = f'<{type(x).__name__}>'
    return s[:120]


# ----------------------------------------------------------------------------- witness search (bounded stand-in / refutation aid)
import random

LEAF_CLASSES = ['ConfigScalar[int]', 'ConfigScalar[str]', 'ConfigScalar[bool]', 'ConfigScalar[NoneType]', 'RequiredNode', 'XRefNode', 'EvalNode', 'ImportNode', 'ClearNode']
FLAG3 = [None, True, False]


class WitnessGen:
    """random small inputs for a contract: trees of height <= 2 and width <= 2, flags from {None, True, False},
    priorities from {None, -1, 0, 1}, keys from {'a', 'b', 0, 1}"""

    def __init__(self, eng, contract, rng):
        self.eng, self.c, self.rng = eng, contract, rng
        self.objects = {}
        self.next = 0

    def ref(self):
        self.next += 1
        return self.next

    def flags(self):
        r = self.rng
        few = r.random() < 0.5      # most nodes of real configs carry few flags
        def f():
            return r.choice(FLAG3) if not few or r.random() < 0.3 else None
        return {'_priority': r.choice([None, None, -1, 0, 1]), '_delete': f(), '_allow_new': f(), '_safe': f(),
                '_implicit_delete': f(), '_implicit_allow_new': f(), '_implicit_safe': f(),
                '_default_safe': r.choice([True, True, False]), '_source_file': r.choice([None, 'f.yaml']), '_idx': 0}

    def node(self, classes, depth, ref=None):
        r = self.rng
        ref = ref or self.ref()
        cname = r.choice(classes)
        o = {'cls': cname, 'fields': self.flags(), 'metadata': [[k, r.randint(0, 3)] for k in r.sample(['m', 'n'], r.randint(0, 2))]}
        self.objects[str(ref)] = o
        repo = self.eng.repo
        if cname in repo.classes and repo.is_subclass(cname, 'FunctionNode'):
            o['fields']['_func'] = r.choice(['builtins.dict', 'builtins.list'])
        if cname in repo.classes and repo.is_subclass(cname, 'ComposedNode'):
            is_list = repo.is_subclass(cname, 'list')
            # the outermost container is drawn a little larger (an element with two neighbours after it, three keys): off-by-one
            # errors in shifting loops need that much room
            n = r.randint(0, (4 if is_list else 3) if depth >= 2 else 2) if depth > 0 else 0
            keys = list(range(n)) if is_list else r.sample(['a', 'b', 0, 1], n)
            kids = []
            for k in keys:
                cr = self.ref()
                sub = LEAF_CLASSES if depth <= 1 else LEAF_CLASSES + ['ConfigDict', 'ConfigList', 'CallNode']
                self.node([r.choice(sub)], depth - 1, cr)
                kids.append([k, {'ref': cr}])
            o['children'] = kids
            if is_list:
                o['list_items'] = [v for _, v in kids]
            elif repo.is_subclass(cname, 'dict'):
                o['dict_items'] = [list(kv) for kv in kids]
        elif cname.startswith('ConfigScalar['):
            o['sval'] = {'int': r.randint(0, 3), 'str': r.choice(['', 'x']), 'bool': r.choice([True, False]), 'NoneType': None, 'float': 1.5}[cname[13:-1]]
        return ref

    def make(self):
        r = self.rng
        args = {}
        for p in self.c.params:
            if p.kind == 'node':
                cls = p.kw['cls']
                if isinstance(cls, (list, tuple)):
                    classes = list(cls)
                elif p.kw.get('exact'):
                    classes = [cls]
                else:
                    classes = [c for c in self.eng.classes_under(cls) if c in self.eng.node_classes and c not in ('StreamNode', 'IncludeNode', 'ConfigScalar[float]', 'PathNode', 'RecurseNode')]
                ref = p.kw.get('ref') or self.ref()
                self.node(classes, 2, ref)
                args[p.name] = {'val': {'ref': ref}}
            elif p.kind == 'val':
                k = p.kw['vkind']
                dom = {'bool': [True, False], 'int': [-2, -1, 0, 1, 2, 3], 'str': ['', 'a', '_x'], 'optbool': FLAG3, 'optint': [None, 0, 1],
                       'optstr': [None, 'a'], 'prim': [None, True, 0, 'a'], 'key': ['a', 'b', 0, 1, 2, -1], 'any': [None, True, 0, 1, 'a']}[k]
                args[p.name] = {'val': r.choice(dom)}
            elif p.kind == 'path':
                args[p.name] = {'path': r.choice([[], ['a'], ['a', 0], ['x', 'a']])}
            elif p.kind == 'const':
                args[p.name] = {'val': p.kw['value']}
            elif p.kind == 'pset':
                args[p.name] = {'val': None}
            elif p.kind in ('map', 'list'):
                ref = self.ref()
                n = r.randint(0, 3)
                vals = []
                for _ in range(n):
                    if r.random() < 0.5:
                        vals.append(r.choice([None, 1, 'x', True]))
                    else:
                        cr = self.ref()
                        self.node([r.choice(LEAF_CLASSES + ['ConfigDict', 'ConfigList'])], 1, cr)
                        vals.append({'ref': cr})
                if p.kind == 'map':
                    keys = r.sample(['a', 'b', 'c', 0, 1, 'items'], n)
                    self.objects[str(ref)] = {'cls': 'dict', 'items': [[k, v] for k, v in zip(keys, vals)]}
                else:
                    self.objects[str(ref)] = {'cls': 'list', 'items': vals}
                args[p.name] = {'val': {'ref': ref}}
            else:
                args[p.name] = {'skip': True}
        gen = self.c.opts.get('witness_gen')
        w = {'contract': self.c.id, 'args': args, 'objects': self.objects, 'slots': {}}
        if gen:
            w = gen(self, w)
        return w


def search(eng, contract, clause, repo_root, n=200, seed=0, kind='post'):
    """random search for an input on which the real function breaks `clause` ('*' = any clause).
    returns (witness, replay_result, stats)"""
    rng = random.Random(seed * 7919 + hash(contract.id) % 1000)
    stats = {'tried': 0, 'valid': 0, 'invalid': 0, 'errors': 0, 'distinct': set()}
    for _ in range(n):
        w = WitnessGen(eng, contract, rng).make()
        stats['tried'] += 1
        try:
            rr = run_witness(eng, contract, clause, w, repo_root, kind=kind)
        except Exception as e:
            stats['errors'] += 1
            stats['last_error'] = f'{type(e).__name__}: {e}'
            continue
        if rr['verdict'] == 'invalid':
            stats['invalid'] += 1
            continue
        if rr['verdict'] == 'error':
            stats['errors'] += 1
            stats['last_error'] = rr['detail']
            continue
        stats['valid'] += 1
        stats['distinct'].add(json.dumps(w, sort_keys=True, default=str))
        if rr['verdict'] == 'violates':
            stats['distinct'] = len(stats['distinct'])
            return w, rr, stats
    stats['distinct'] = len(stats['distinct'])
    return None, None, stats
