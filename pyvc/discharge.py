"""Discharge obligations: z3 (Python API, resource limit) first, cvc5 (CLI, SMT-LIB export) for what z3 leaves open."""
import os
import sys
import subprocess
import tempfile
import time
import z3

RLIMIT_QUICK = 8_000_000
RLIMIT_THOROUGH = 80_000_000


def _has_quant(obl):
    txt = obl.goal.sexpr()
    if 'forall' in txt or 'exists' in txt or 'lambda' in txt:
        return True
    for a in obl.assumptions:
        t = a.sexpr()
        if 'forall' in t or 'exists' in t or 'lambda' in t:
            return True
    return False


def _consts(t, memo):
    """names of uninterpreted constants / functions in a term"""
    key = t.get_id()
    if key in memo:
        return memo[key]
    out = set()
    todo = [t]
    seen = set()
    while todo:
        x = todo.pop()
        i = x.get_id()
        if i in seen:
            continue
        seen.add(i)
        if z3.is_quantifier(x):
            todo.append(x.body())
        elif z3.is_app(x):
            if x.num_args() == 0 and x.decl().kind() == z3.Z3_OP_UNINTERPRETED:
                out.add(x.decl().name())
            elif x.decl().kind() == z3.Z3_OP_UNINTERPRETED:
                out.add(x.decl().name())
            todo.extend(x.children())
    memo[key] = out
    return out


def slice_assumptions(obl):
    """cone of influence: keep the assumptions that (transitively) share a symbol with the goal.
    Proving from fewer assumptions is sound; a `sat` on the slice is never used as a refutation."""
    memo = {}
    need = set(_consts(obl.goal, memo))
    rest = [(a, _consts(a, memo)) for a in obl.assumptions]
    keep = []
    changed = True
    while changed:
        changed = False
        nxt = []
        for a, cs in rest:
            if cs & need or not cs:
                keep.append(a)
                if not cs <= need:
                    need |= cs
                    changed = True
            else:
                nxt.append((a, cs))
        rest = nxt
    return keep


def check_z3(obl, rlimit, timeout_ms=120000, assumptions=None, opts=None):      # the resource limit is the real (deterministic) bound; the wall-clock limit is a safety net sized for a fully loaded machine
    s = z3.Solver()
    s.set('rlimit', rlimit)
    s.set('timeout', timeout_ms)
    for k, v in (opts or {}).items():
        s.set(k, v)
    for a in (obl.assumptions if assumptions is None else assumptions):
        s.add(a)
    s.add(z3.Not(obl.goal))
    t0 = time.time()
    r = s.check()
    dt = time.time() - t0
    model = None
    if r == z3.sat:
        model = s.model()
    try:
        rl = s.statistics().get_key_value('rlimit count')
    except Exception:
        rl = None
    return str(r), dt, model, rl


def check_cvc5(obl, timeout_s=30):
    if os.environ.get('PYVC_NO_CVC5'):
        return 'unknown', 0.0
    smt = obl.smt2()
    smt = '(set-logic ALL)\n' + smt
    with tempfile.NamedTemporaryFile('w', suffix='.smt2', delete=False, dir=os.environ.get('PYVC_TMP', None)) as f:
        f.write(smt)
        fn = f.name
    t0 = time.time()
    try:
        p = subprocess.run(['/usr/bin/cvc5', '--lang', 'smt2', f'--tlimit={timeout_s * 1000}', '--strings-exp', '--full-saturate-quant', fn],
                           capture_output=True, text=True, timeout=timeout_s + 5)
        out = p.stdout.strip().split('\n')[0] if p.stdout.strip() else 'unknown'
        if os.environ.get('PYVC_DEBUG_CVC5'):
            sys.stderr.write(f'CVC5 {obl.name[-50:]} -> {out!r} rc={p.returncode} {time.time() - t0:.1f}s err={p.stderr[:150]!r}\n')
    except subprocess.TimeoutExpired:
        out = 'unknown'
        if os.environ.get('PYVC_DEBUG_CVC5'):
            sys.stderr.write(f'CVC5 {obl.name[-50:]} -> python-side timeout after {time.time() - t0:.1f}s\n')
    finally:
        os.unlink(fn)
    return out, time.time() - t0


INT_DOM = [-1, 0, 1, 2, 3, 4]


def _val_dom():
    from . import sym
    return [sym.mk_int(0), sym.mk_int(1), sym.mk_str('a'), sym.mk_str('b')]


def _outer_quants(t):
    out, seen, todo = [], set(), [t]
    while todo:
        x = todo.pop()
        i = x.get_id()
        if i in seen:
            continue
        seen.add(i)
        if z3.is_quantifier(x):
            if not x.is_lambda():
                out.append(x)
            continue
        if z3.is_app(x):
            todo.extend(x.children())
    return out


def expand(t, memo=None):
    """replace every quantifier by its instances over a finite universe"""
    from . import sym
    import itertools
    if memo is None:
        memo = {}
    qs = _outer_quants(t)
    if not qs:
        return t
    pairs = []
    for q in qs:
        key = q.get_id()
        if key not in memo:
            n = q.num_vars()
            doms = []
            for i in range(n):
                srt = q.var_sort(i)
                if srt == z3.IntSort():
                    doms.append([z3.IntVal(v) for v in INT_DOM])
                elif srt == sym.Val:
                    doms.append(_val_dom())
                else:
                    doms = None
                    break
            if doms is None:
                memo[key] = z3.BoolVal(True) if q.is_forall() else z3.BoolVal(False)
            else:
                body = q.body()
                insts = [expand(z3.substitute_vars(body, *reversed(combo)), memo) for combo in itertools.product(*doms)]
                memo[key] = z3.And(insts) if q.is_forall() else z3.Or(insts)
        pairs.append((q, memo[key]))
    return z3.substitute(t, *pairs)


def bounded_candidate(obl, timeout_ms=60000):
    s = z3.Solver()
    s.set('timeout', timeout_ms)
    memo = {}
    for a in obl.assumptions:
        s.add(expand(a, memo))
    s.add(expand(z3.Not(obl.goal), memo))
    if s.check() == z3.sat:
        return s.model()
    return None


def discharge(obl, tier='quick', second_opinion=False, cvc5_ok=True, rl_div=1):
    """returns dict(status, backend, seconds, model, quantified)"""
    rl = (RLIMIT_QUICK if tier == 'quick' else RLIMIT_THOROUGH) // rl_div
    if z3.is_true(obl.goal):
        # decided by term simplification while the path was executed (concrete shapes fold completely)
        return {'backend': 'simplifier', 'seconds': 0.0, 'quantified': False, 'rlimit_used': 0, 'model': None, 'cvc5': None, 'status': 'proved'}
    quant = _has_quant(obl)
    sl = slice_assumptions(obl)
    if len(sl) < len(obl.assumptions):
        r, dt, model, used = check_z3(obl, rl, assumptions=sl)
        if r == 'unsat':
            return {'backend': 'z3', 'seconds': dt, 'quantified': quant, 'rlimit_used': used, 'model': None, 'cvc5': None,
                    'status': 'proved', 'sliced': f'{len(sl)}/{len(obl.assumptions)}'}
    r, dt, model, used = check_z3(obl, rl)
    res = {'backend': 'z3', 'seconds': dt, 'quantified': quant, 'rlimit_used': used, 'model': None, 'cvc5': None}
    if r == 'unsat':
        res['status'] = 'proved'
        if second_opinion:
            r2, dt2 = check_cvc5(obl, 30)
            res['cvc5'] = r2
            res['cvc5_seconds'] = dt2
            if r2 == 'sat' and not quant:
                res['status'] = 'solver-disagreement'
        return res
    if r == 'sat':
        # a model of a quantified formula is only a candidate; of a quantifier-free one it is definite
        res['status'] = 'refuted'      # z3 reports sat on quantified input only after checking the model (else unknown)
        res['model'] = model
        return res
    if not cvc5_ok:
        # the fallback budget of this contract is used up (only happens when many of its obligations are already open or refuted):
        # no portfolio, no candidate search, no second solver for the rest
        res['status'] = 'unknown'
        res['cvc5'] = 'skipped:budget'
        return res
    t_fb = time.time()
    if quant:
        # quantified obligations are sensitive to the instantiation strategy: a small portfolio (an `unsat` is a proof whichever
        # configuration finds it; nothing else is concluded from these attempts)
        for ass, opts in ((sl, {'smt.mbqi': False}), (obl.assumptions, {'smt.mbqi': False}), (sl, {'smt.random_seed': 7})):
            r3, dt3, _, used3 = check_z3(obl, rl, assumptions=ass, opts=opts)
            res['seconds'] += dt3
            if r3 == 'unsat':
                res.update({'status': 'proved', 'backend': 'z3', 'rlimit_used': used3, 'portfolio': str(opts), 'cvc5_fallback_seconds': time.time() - t_fb})
                return res
    # candidate counter-model by finite instantiation (DESIGN 2.7 step 2): every quantifier is expanded over a small
    # universe, the result is quantifier-free and decided; the model is only ever used to build an input that is then
    # replayed on the real code
    try:
        cm = bounded_candidate(obl)
        if cm is not None:
            res['candidate_model'] = cm
    except Exception as e:
        res['candidate_error'] = f'{type(e).__name__}: {e}'
    r2, dt2 = check_cvc5(obl, 120 if tier == 'quick' else 180)      # wall-clock limits: sized so that a verdict does not flip when all cores are busy
    res['cvc5'] = r2
    res['cvc5_fallback_seconds'] = time.time() - t_fb
    res['seconds'] += dt2
    if r2 == 'unsat':
        res['status'] = 'proved'
        res['backend'] = 'cvc5'
    elif r2 == 'sat':
        res['status'] = 'refuted' if not quant else 'unknown'   # no model is imported from the CLI: only trusted when quantifier-free
        res['backend'] = 'cvc5'
    else:
        res['status'] = 'unknown'
    return res
