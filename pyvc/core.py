"""Path runner: stateless symbolic execution by re-execution under a decision prefix."""
import z3
from . import sym
from .sym import Val, Heap


class Stop(Exception):
    pass


class ReturnEx(Stop):
    def __init__(self, value):
        self.value = value


class RaiseEx(Stop):
    def __init__(self, exc):
        self.exc = exc


class BreakEx(Stop):
    pass


class ContinueEx(Stop):
    pass


class PathEnd(Stop):
    """path terminated without reaching the end of the function (loop body checked / assumption false)"""
    def __init__(self, why=''):
        self.why = why


class NoForkAbort(Exception):
    """raised inside an if-conversion attempt when a genuine fork would be needed"""


class Unsupported(Exception):
    """construct outside the subset: the function is not claimed proved (exit 2)"""


class Obl:
    __slots__ = ('name', 'kind', 'assumptions', 'goal', 'func', 'lineno', 'path_id', 'props', 'info')

    def __init__(self, name, kind, assumptions, goal, func, lineno=None, path_id=None, props=(), info=None):
        self.name, self.kind, self.assumptions, self.goal = name, kind, list(assumptions), goal
        self.func, self.lineno, self.path_id, self.props, self.info = func, lineno, path_id, props, info or {}

    def smt2(self):
        s = z3.Solver()
        for a in self.assumptions:
            s.add(a)
        s.add(z3.Not(self.goal))
        return s.to_smt2()

    def size(self):
        return sum(len(a.sexpr()) for a in self.assumptions) + len(self.goal.sexpr())


def _quantified(c):
    if z3.is_quantifier(c):
        return True
    t = c.sexpr()
    return 'forall' in t or 'exists' in t or 'lambda' in t


class Decider:
    """decision prefix / worklist shared by all re-executions of one verification task"""

    def __init__(self):
        self.work = [[]]
        self.done = 0


class PathRun:
    """state of one path"""

    def __init__(self, eng, prefix):
        self.eng = eng
        self.prefix = list(prefix)
        self.pos = 0
        self.trace = []
        self.labels = []
        self.new_work = []
        self.pc = []
        self.heap = Heap(tag='H0')
        self.obls = []
        self.events = []
        self.nfresh = 0
        self.nalloc = 0
        self.notes = []
        self.solver = z3.Solver()
        self.solver.set('timeout', eng.opts.get('feas_timeout_ms', 3000))
        self.feas_checks = 0
        self.boxes = {}
        self.no_fork = 0
        self.safe_seen = set()
        self.skip_kinds = set()
        self.slice_views = {}

    # ---- symbols ---------------------------------------------------------
    def fresh(self, name, sort=Val):
        self.nfresh += 1
        return z3.Const(f'{name}!{self.nfresh}', sort)

    def alloc(self, clsname):
        """fresh object identity: concrete negative integer (pre-state objects are positive)"""
        self.nalloc += 1
        r = z3.IntVal(-self.nalloc)
        self.heap.put('$cls', r, z3.IntVal(self.eng.class_id(clsname)))
        return r

    # ---- assumptions -----------------------------------------------------
    def assume(self, c):
        c = sym.simp(c)
        if z3.is_true(c):
            return
        self.pc.append(c)
        if not _quantified(c):
            self.solver.add(c)      # feasibility is decided without the quantified facts (over-approximation: sound)

    def feasible(self, c):
        self.feas_checks += 1
        self.solver.push()
        self.solver.add(c)
        r = self.solver.check()
        self.solver.pop()
        return r != z3.unsat

    def concretize(self, t):
        """if the path condition forces the integer term t to a single value, return it as IntVal (else the term)"""
        ts = sym.simp(t)
        if z3.is_int_value(ts):
            return ts
        self.solver.push()
        try:
            if self.solver.check() != z3.sat:
                return ts
            v = self.solver.model().eval(ts, model_completion=True)
            if not z3.is_int_value(v):
                return ts
            self.solver.add(ts != v)
            if self.solver.check() == z3.unsat:
                return v
            return ts
        finally:
            self.solver.pop()

    def decide(self, cond, label=''):
        """branch on a z3 Bool; returns python bool"""
        c = sym.simp(cond)
        if z3.is_true(c):
            return True
        if z3.is_false(c):
            return False
        if self.no_fork:
            raise NoForkAbort()
        self.labels.append(label)
        if self.pos < len(self.prefix):
            d = self.prefix[self.pos]
            self.pos += 1
            self.trace.append(d)
            self.assume(c if d else z3.Not(c))
            return bool(d)
        t = self.feasible(c)
        f = self.feasible(z3.Not(c))
        if t and f:
            self.new_work.append(self.trace + [0])
            self.trace.append(1)
            self.pos += 1
            self.prefix.append(1)
            self.assume(c)
            return True
        # one-sided: recorded in the trace as well, so that re-execution consumes decisions at the same points
        if t:
            self.trace.append(1)
            self.prefix.append(1)
            self.pos += 1
            self.assume(c)      # implied; keeps later simplification cheap
            return True
        if f:
            self.trace.append(0)
            self.prefix.append(0)
            self.pos += 1
            self.assume(z3.Not(c))
            return False
        raise PathEnd('infeasible')

    def choose(self, n, label=''):
        """n-way nondeterministic choice (dispatch, callee outcome, loop body/after); returns index"""
        if n == 1:
            return 0
        if self.no_fork:
            raise NoForkAbort()
        self.labels.append(label)
        if self.pos < len(self.prefix):
            d = self.prefix[self.pos]
            self.pos += 1
            self.trace.append(d)
            return d
        for k in range(1, n):
            self.new_work.append(self.trace + [k])
        self.trace.append(0)
        self.prefix.append(0)
        self.pos += 1
        return 0

    # ---- obligations -------------------------------------------------------
    def oblige(self, name, goal, kind='assert', lineno=None, props=(), info=None):
        if kind in self.skip_kinds:
            return
        g = sym.simp(goal)
        if z3.is_true(g):
            self.eng.trivial += 1
            if kind not in ('post', 'raise', 'inv_pres', 'inv_entry', 'dominance'):
                return      # safety / frame side conditions that fold to true are not listed
        self.obls.append(Obl(name, kind, self.pc if not z3.is_true(g) else [], g, self.eng.cur_key, lineno, None, props, info))

    def event(self, tag, **kw):
        self.events.append((tag, list(self.pc), kw))
