"""Task kinds besides contract verification: lemmas (z3 over spec functions), structural obligations
(decided on the AST / class table, no solver), bounded stand-ins (real code, stated bound)."""


class Lemma:
    kind = 'lemma'

    def __init__(self, id, props, build, note=''):
        self.id, self.props, self.build, self.note = id, tuple(props), build, note   # build(eng) -> [(name, assumptions, goal)]


class Structural:
    kind = 'structural'

    def __init__(self, id, props, check, note=''):
        self.id, self.props, self.check, self.note = id, tuple(props), check, note   # check(eng) -> [(name, ok, detail)]


class Bounded:
    kind = 'bounded'

    def __init__(self, id, props, run, bound, tiers=('quick', 'thorough'), note='', stands_in_for=''):
        # run(repo_root, tier, seed) -> dict(cases=int, distinct=int, failures=[{name, detail, input}], samples=[...])
        self.id, self.props, self.run, self.bound, self.tiers, self.note = id, tuple(props), run, bound, tiers, note
        self.stands_in_for = stands_in_for
