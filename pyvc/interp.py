"""Symbolic interpreter of the Python subset (DESIGN appendix B) over the real AST."""
import ast
import z3
from . import sym
from .sym import Val, Heap, MapT, ListT
from .values import *
from .core import *
from .contract import SpecCtx, P

EXC_BASES = {
    'BaseException': None, 'Exception': 'BaseException', 'ValueError': 'Exception', 'TypeError': 'Exception',
    'LookupError': 'Exception', 'KeyError': 'LookupError', 'IndexError': 'LookupError', 'AttributeError': 'Exception',
    'NameError': 'Exception', 'RuntimeError': 'Exception', 'NotImplementedError': 'RuntimeError',
    'OSError': 'Exception', 'FileNotFoundError': 'OSError', 'ImportError': 'Exception', 'AssertionError': 'Exception',
    'StopIteration': 'Exception', 'ArithmeticError': 'Exception', 'ZeroDivisionError': 'ArithmeticError',
    'YAMLError': 'Exception', 'MarkedYAMLError': 'YAMLError', 'Error': 'MarkedYAMLError',
    'ParsingError': 'Error', 'PreprocessError': 'Error', 'PremergeError': 'Error', 'MergeError': 'Error',
    'EvalError': 'Error', 'UnsafeError': 'EvalError', 'UnicodeError': 'ValueError',
}


def exc_is(cls, base):
    while cls is not None:
        if cls == base:
            return True
        cls = EXC_BASES.get(cls)
    return False


_STR_METHODS = {'startswith', 'endswith', 'split', 'strip', 'replace', 'find', 'rfind', 'join', 'count', 'encode', 'rsplit', 'format', 'lower', 'upper'}


class Frame:
    def __init__(self, fi, closure=None, defcls=None):
        self.fi = fi
        self.loc = {}
        self.closure = closure
        self.defcls = defcls            # class in whose body the function is defined (for super())
        self.nonlocals = set()
        self.globals_decl = set()
        self.on_yield = None
        self.yields = None              # list ref for generator ghost sequence
        self.yparts = None              # ghost lists of the components of yielded pairs
        self.catching = []              # stack of lists of exception class names handled by enclosing try blocks
        self.loop_ord = {}
        self.depth = 0
        n = 0
        if fi is not None and not isinstance(fi.node, ast.Lambda):
            for st in _own_stmts(fi.node):
                if isinstance(st, (ast.For, ast.While)):
                    self.loop_ord[id(st)] = n
                    n += 1

    def lookup(self, name):
        f = self
        while f is not None:
            if name in f.loc:
                return f, f.loc[name]
            f = f.closure
        return None, None

    def catches(self, exc):
        for hs in self.catching:
            for h in hs:
                if h is None or exc_is(exc, h):
                    return True
        return False


def _own_stmts(fnode):
    """statements of a function in source order, not descending into nested defs"""
    out = []

    def rec(stmts):
        for st in stmts:
            out.append(st)
            if isinstance(st, (ast.FunctionDef, ast.ClassDef, ast.Lambda)):
                continue
            for fld in ('body', 'orelse', 'finalbody'):
                if hasattr(st, fld) and isinstance(getattr(st, fld), list):
                    rec(getattr(st, fld))
            if isinstance(st, ast.Try):
                for h in st.handlers:
                    rec(h.body)
    rec(fnode.body)
    return out


class LoopCtx:
    def __init__(self, i, n, loc, heap, entry_loc, entry_heap, it=None):
        self.i, self.n, self.loc, self.heap, self.entry_loc, self.entry_heap, self.it = i, n, loc, heap, entry_loc, entry_heap, it
        self.k = i          # number of completed iterations (ghost), also for while loops

    def t(self, name):
        v = self.loc[name]
        return v.t if isinstance(v, SV) else v

    def ref(self, name):
        return sym.simp(sym.r_of(self.loc[name].t))


class Interp:
    MAX_DEPTH = 12
    MAX_UNROLL = 64

    def __init__(self, eng, run, contract, top_fi):
        self.eng = eng
        self.repo = eng.repo
        self.run = run
        self.contract = contract
        self.top_fi = top_fi
        self.depth = 0
        self.spec_args = None
        self.pre_heap = None

    # ------------------------------------------------------------------ utilities
    @property
    def heap(self):
        return self.run.heap

    def unsupported(self, node, msg):
        ln = getattr(node, 'lineno', '?')
        raise Unsupported(f'{self.eng.cur_key}:{ln}: {msg}')

    def sv(self, v, node=None):
        """coerce an interpreter value to SV"""
        if isinstance(v, SV):
            return v
        if v is None or isinstance(v, (bool, int, str)):
            return sv_const(v)
        self.unsupported(node, f'value {v!r} used where a dynamic value is required')

    def raise_(self, cls, node=None, args=(), **fields):
        raise RaiseEx(ExcV(cls, args, fields, lineno=getattr(node, 'lineno', None)))

    def maybe_raise(self, cond_ok, exc, fr, node, what):
        """primitive operation that raises `exc` unless cond_ok.  If the exception is observable (handled in the
        function or allowed by the contract) the path forks; otherwise `cond_ok` becomes a safety obligation."""
        c = sym.simp(cond_ok)
        if z3.is_true(c):
            return
        if exc == 'AttributeError' and 'non-object' in what and self.contract.opts.get('assume_children_are_objects'):
            # type invariant of `_children` (every entry is a node: proved for set_child) used as an assumption
            self.run.assume(c)
            return
        if fr.catches(exc) or self.eng.contract_allows(self.contract, exc):
            if not self.run.decide(c, what):
                self.raise_(exc, node)
        else:
            key = c.get_id()
            if key in self.run.safe_seen:
                return
            self.run.safe_seen.add(key)
            self.run.oblige(f'no-{exc}:{what}@{getattr(node, "lineno", "?")}', c, kind='safety', lineno=getattr(node, 'lineno', None))
            self.run.assume(c)

    # ------------------------------------------------------------------ classes of a reference
    def classes_of(self, v):
        c = sym.simp(self.heap.cls(sym.r_of(v.t)))
        if z3.is_int_value(c):
            return [self.eng.class_name(c.as_long())]
        if v.hint and len(v.hint) == 1:
            return sorted(v.hint)
        cc = self.run.concretize(c)          # does the path condition force one class?
        if z3.is_int_value(cc):
            return [self.eng.class_name(cc.as_long())]
        if v.hint:
            return sorted(v.hint)
        return sorted(self.eng.all_object_classes)

    def narrow(self, v, names, label):
        """fork over groups of classes; `names`: dict group_key -> [class names]; returns chosen key"""
        groups = [(k, cl) for k, cl in names.items() if cl]
        if len(groups) == 1:
            return groups[0][0]
        r = sym.r_of(v.t)
        feas = []
        for k, cl in groups:
            cond = z3.Or([self.heap.cls(r) == self.eng.class_id(c) for c in cl])
            if self.run.feasible(cond):        # decided the same way on every re-execution (choice indices refer to this list)
                feas.append((k, cl, cond))
        if not feas:
            raise PathEnd('no class feasible')
        idx = self.run.choose(len(feas), label)
        k, cl, cond = feas[idx]
        self.run.assume(cond)
        return k

    def isinstance_term(self, v, clsname):
        """z3 Bool: isinstance(v, clsname)"""
        t = v.t
        prim = {'str': sym.is_str(t), 'int': z3.Or(sym.is_int(t), sym.is_bool(t)), 'bool': sym.is_bool(t),
                'NoneType': sym.is_none(t), 'float': Val.is_flt(t)}
        base = prim.get(clsname, z3.BoolVal(False))
        return z3.Or(base, z3.And(sym.is_ref(t), self.eng.isinstance_term(self.heap.cls(sym.r_of(t)), clsname)))

    # ------------------------------------------------------------------ truthiness
    def truth(self, v, fr=None, node=None):
        if isinstance(v, bool):
            return z3.BoolVal(v)
        if v is None:
            return z3.BoolVal(False)
        if isinstance(v, (int, str)):
            return z3.BoolVal(bool(v))
        if isinstance(v, z3.BoolRef):
            return v
        if isinstance(v, PathV):
            return z3.Length(v.s) != 0
        if isinstance(v, TupleV):
            return z3.BoolVal(len(v.items) > 0)
        if isinstance(v, (FuncV, ClassV, ModV, BuiltinV, LambdaV)):
            return z3.BoolVal(True)
        if isinstance(v, OpaqueV):
            if v.tag == 'bool':
                return v.payload
            self.unsupported(node, f'truthiness of opaque value {v.tag}')
        if isinstance(v, SV):
            t = sym.simp(v.t)
            isref = sym.simp(sym.is_ref(t))
            if z3.is_false(isref):
                return sym.truthy_prim(t)
            if not z3.is_true(isref):
                if self.run.decide(isref, 'is-object'):
                    return self.obj_truth(v, fr, node)
                return sym.truthy_prim(t)
            return self.obj_truth(v, fr, node)
        self.unsupported(node, f'truthiness of {v!r}')

    def obj_truth(self, v, fr, node):
        r = sym.r_of(v.t)
        groups = {}
        for c in self.classes_of(v):
            groups.setdefault(self.eng.truth_rule(c), []).append(c)
        rule = self.narrow(v, groups, 'truth')
        if rule == 'llen':
            return self.heap.get('$llen', r) != 0
        if rule == 'mlen':
            return self.heap.get('$mlen', r) != 0
        if rule == 'true':
            return z3.BoolVal(True)
        if rule == 'false':
            return z3.BoolVal(False)
        if rule == 'sint':
            return sym.truthy_prim(self.heap.get('$sval', r))
        if isinstance(rule, tuple) and rule[0] == 'user':
            res = self.call_func(rule[1], [v], {}, node, fr, bound_cls=None)
            return self.truth(res, fr, node)
        self.unsupported(node, f'truthiness rule {rule}')

    # ------------------------------------------------------------------ equality
    def py_eq(self, a, b, node=None):
        if isinstance(a, PathV) and isinstance(b, PathV):
            return a.s == b.s
        if isinstance(a, ClassV) and isinstance(b, ClassV):
            return z3.BoolVal(a.name == b.name)
        if isinstance(a, TupleV) and isinstance(b, TupleV):
            if len(a.items) != len(b.items):
                return z3.BoolVal(False)
            return z3.And([self.py_eq(x, y, node) for x, y in zip(a.items, b.items)] or [z3.BoolVal(True)])
        a, b = self.sv(a, node), self.sv(b, node)
        ta, tb = a.t, b.t

        def num(t):
            return z3.If(sym.is_bool(t), z3.If(sym.b_of(t), 1, 0), sym.i_of(t))
        numeric = z3.And(z3.Or(sym.is_bool(ta), sym.is_int(ta)), z3.Or(sym.is_bool(tb), sym.is_int(tb)))
        return sym.simp(z3.If(numeric, num(ta) == num(tb), ta == tb))

    def py_is(self, a, b, node=None):
        if isinstance(a, ClassV) or isinstance(b, ClassV):
            if isinstance(a, ClassV) and isinstance(b, ClassV):
                return z3.BoolVal(a.name == b.name)
            ca, cb = (a, b) if isinstance(a, ClassV) else (b, a)
            if isinstance(cb, OpaqueV) and cb.tag == 'typeof':
                return self.heap.cls(sym.r_of(cb.payload.t)) == self.eng.class_id(ca.name)
            return z3.BoolVal(False)
        if isinstance(a, OpaqueV) and isinstance(b, OpaqueV) and a.tag == 'typeof' and b.tag == 'typeof':
            return self.heap.cls(sym.r_of(a.payload.t)) == self.heap.cls(sym.r_of(b.payload.t))
        if isinstance(a, (FuncV, ModV, BuiltinV)) or isinstance(b, (FuncV, ModV, BuiltinV)):
            return z3.BoolVal(a is b)
        if isinstance(a, PathV) or isinstance(b, PathV):
            if isinstance(a, PathV) and isinstance(b, PathV):
                self.unsupported(node, 'identity of paths')
            return z3.BoolVal(False)
        a, b = self.sv(a, node), self.sv(b, node)
        return sym.simp(a.t == b.t)

    # ------------------------------------------------------------------ attribute access
    def getattr_(self, v, name, fr, node, default=None, has_default=False):
        if isinstance(v, SV):
            return self.obj_getattr(v, name, fr, node, default, has_default)
        if isinstance(v, ClassV):
            return self.class_getattr(v, name, fr, node)
        if isinstance(v, AynsV):
            return self.ayns_getattr(v, name, fr, node)
        if isinstance(v, SuperV):
            if name == 'ayns':
                return AynsV(v.obj, None, after=v.after)
            if all(self.repo.resolve_method(c, name, after=v.after) is None for c in self.classes_of(v.obj) if c in self.repo.classes):
                # a method of an external base class (e.g. yaml.Loader): by its declared model
                return BuiltinV(f'super:{v.after}.{name}', bound=v.obj)
            return self.resolve_on_obj(v.obj, name, fr, node, after=v.after)
        if isinstance(v, ModV):
            return self.eng.module_attr(self, v, name, node)
        if isinstance(v, SlotV):
            if name == 'value':
                t = self.heap.get('$slot:' + v.name, z3.IntVal(0))
                if has_default:
                    if self.run.decide(sym.is_undef(t), 'slot-unset'):
                        return default
                else:
                    self.maybe_raise(z3.Not(sym.is_undef(t)), 'AttributeError', fr, node, f'{v.name}.value')
                return SV(t)
        if isinstance(v, ExcV):
            if name in v.fields:
                return v.fields[name]
            if name in ('__context__', '__cause__'):
                return v.cause if v.cause is not None else NONE
            if name == 'errno':
                return SV(self.run.fresh('errno'))
        if isinstance(v, PathV):
            pass
        if isinstance(v, OpaqueV) and v.tag == '__dict__' and name in ('copy', 'update'):
            return BuiltinV(f'objdict.{name}', bound=v)
        if isinstance(v, OpaqueV) and v.tag in ('md5', 'bytes', 'generator', 'str'):
            return BuiltinV(f'{v.tag}.{name}', bound=v)
        if isinstance(v, OpaqueV) and v.tag == 'typeof':
            if name == '__name__':
                return OpaqueV('str')
            if name == '__mro__':
                return OpaqueV('mro', v.payload)
        if isinstance(v, BuiltinV) and v.name in ('dict', 'list', 'str', 'object', 'int', 'tuple', 'type'):
            return BuiltinV(f'{v.name}.{name}')
        if isinstance(v, BuiltinV) and v.bound is None:
            full = f'{v.name}.{name}'
            if full in self.eng.registry.constants:
                return sv_const(self.eng.registry.constants[full])
            return BuiltinV(full)
        self.unsupported(node, f'attribute {name!r} of {v!r}')

    def obj_getattr(self, v, name, fr, node, default=None, has_default=False):
        t = v.t
        isref = sym.simp(sym.is_ref(t))
        if z3.is_false(isref):
            return self.prim_getattr(v, name, fr, node)
        if not z3.is_true(isref):
            s = sym.simp(sym.is_str(t))
            if z3.is_true(s) or not self.run.feasible(z3.Not(sym.is_str(t))):
                return self.prim_getattr(v, name, fr, node)
            if self.run.feasible(z3.Not(isref)):
                if self.run.feasible(sym.is_str(t)) and name in _STR_METHODS:
                    # may be a string or an object: fork
                    if self.run.decide(sym.is_str(t), 'is-str'):
                        return self.prim_getattr(v, name, fr, node)
                # attribute access on something that may not be an object: AttributeError unless it is one
                self.maybe_raise(isref, 'AttributeError', fr, node, f'.{name} on non-object')
        if name == 'ayns':
            return AynsV(v)
        if name == '__dict__':
            if set(self.classes_of(v)) <= {'module'}:
                return SV(self.heap.get('$dict', sym.r_of(t)), hint=frozenset(['dict']))
            return OpaqueV('__dict__', v)
        if name == '__class__':
            return OpaqueV('typeof', v)
        as_field = name in self.eng.instance_fields
        if as_field and name in self.eng.property_names:
            # some classes define a property of this name (a data descriptor wins over the instance attribute)
            cl = self.classes_of(v)
            props = [c for c in cl if self.class_has_property(c, name)]
            if props and len(props) < len(cl):
                k = self.narrow(v, {'prop': props, 'field': [c for c in cl if c not in props]}, f'property-or-field-{name}')
                as_field = (k == 'field')
            elif props:
                as_field = False
        if as_field and name in self.eng.maybe_foreign_fields:
            # an attribute that only some classes have (e.g. `stages`): reading it on an object of another class is an AttributeError
            cl = self.classes_of(v)
            lacking = [c for c in cl if c in self.repo.classes and name not in self.eng.class_fields.get(c, ())]
            if lacking and len(lacking) < len(cl):
                r_ = sym.r_of(t)
                self.maybe_raise(z3.Not(z3.Or([self.heap.cls(r_) == self.eng.class_id(c) for c in lacking])), 'AttributeError', fr, node, f'.{name} on non-object of a class without it')
            elif lacking:
                self.maybe_raise(z3.BoolVal(False), 'AttributeError', fr, node, f'.{name} on non-object of a class without it')
        if as_field:
            val = self.heap.get(name, sym.r_of(t))
            if has_default:
                if self.run.decide(sym.is_undef(val), f'hasattr-{name}'):
                    return default
                return SV(val)
            if fr is not None and fr.catches('AttributeError') and name in self.eng.maybe_missing_fields:
                if self.run.decide(sym.is_undef(val), f'missing-{name}'):
                    self.raise_('AttributeError', node)
            if name in self.eng.field_hints:
                # e.g. `_func`: a string or a callable object (never a node): only prunes dispatch
                return SV(val, hint=frozenset(self.eng.field_hints[name]))
            fh = self.eng.field_types.get(name)
            if fh is not None:
                # type invariant of the attribute (established by every constructor; listed in the evidence)
                self.run.assume(z3.And(sym.is_ref(val), self.heap.cls(sym.r_of(val)) == self.eng.class_id(fh)))
                return SV(val, hint=frozenset([fh]))
            return SV(val)
        return self.resolve_on_obj(v, name, fr, node)

    def class_has_property(self, c, name):
        if c not in self.repo.classes:
            return False
        r = self.repo.resolve_method(c, name)
        return r is not None and not isinstance(r, tuple) and r.kind in ('property', 'staticproperty')

    def is_property_of(self, v, name):
        """a property defined by the class (a data descriptor) takes precedence over an instance attribute of that name"""
        cl = self.classes_of(v)
        if len(cl) > 12:
            return False
        for c in cl:
            if c not in self.repo.classes:
                return False
            r = self.repo.resolve_method(c, name)
            if r is None or isinstance(r, tuple) or r.kind not in ('property', 'staticproperty'):
                return False
        return True

    def prim_getattr(self, v, name, fr, node):
        return BuiltinV('str.' + name, bound=v) if True else None

    def resolve_on_obj(self, v, name, fr, node, after=None):
        groups = {}
        found = {}
        for c in self.classes_of(v):
            r = self.repo.resolve_method(c, name, ayns=False, after=after)
            k = id(r) if not isinstance(r, tuple) else (r[0], getattr(r[1], 'name', r[1]), name)
            if r is None:
                k = None
            groups.setdefault(k, []).append(c)
            found[k] = r
        if len(groups) > 1 and all(isinstance(found[g], tuple) and found[g][0] == 'const' for g in groups):
            # class-level constants that differ between classes: one ite over the class id, no fork
            vals = []
            for g in groups:
                cv = self.eng.class_const(self, found[g][1], name, found[g][2], node)
                if not isinstance(cv, SV):
                    vals = None
                    break
                vals.append((groups[g], cv.t))
            if vals is not None:
                cls = self.heap.cls(sym.r_of(v.t))
                t = vals[-1][1]
                for cl, vt in vals[:-1]:
                    t = z3.If(z3.Or([cls == self.eng.class_id(c) for c in cl]), vt, t)
                return SV(sym.simp(t))
        if None in groups and len(groups) > 1 and name not in self.eng.instance_fields:
            # classes that have no such member: AttributeError there
            bad = groups.pop(None)
            r_ = sym.r_of(v.t)
            self.maybe_raise(z3.Not(z3.Or([self.heap.cls(r_) == self.eng.class_id(c) for c in bad])), 'AttributeError', fr, node, f'.{name} on non-object of a class without it')
        k = self.narrow(v, groups, f'dispatch-{name}')
        r = found[k]
        if r is None:
            # unknown attribute: treat as instance field (e.g. self.builder, self.filenames)
            val = self.heap.get(name, sym.r_of(v.t))
            fh = self.eng.field_types.get(name)
            if fh is not None:
                self.run.assume(z3.And(sym.is_ref(val), self.heap.cls(sym.r_of(val)) == self.eng.class_id(fh)))
                return SV(val, hint=frozenset([fh]))
            return SV(val)
        return self.bind_member(r, v, groups[k], fr, node, name)

    def bind_member(self, r, v, classes, fr, node, name):
        if isinstance(r, tuple):
            if r[0] == 'builtin':
                return BuiltinV(f'{r[1]}.{name}', bound=v)
            if r[0] == 'const':
                return self.eng.class_const(self, r[1], name, r[2], node)
        fi = r
        if fi.kind == 'property':
            return self.call_func(fi, [v], {}, node, fr)
        if fi.kind == 'staticproperty':
            return self.call_func(fi, [], {}, node, fr)
        if fi.kind == 'staticmethod':
            return FuncV(fi)
        if fi.kind == 'classmethod':
            return FuncV(fi, bound=OpaqueV('typeof', v))
        return FuncV(fi, bound=v)

    def class_getattr(self, cv, name, fr, node):
        if name == 'ayns':
            return AynsV(None, cv.name)
        if name == '__name__':
            return sv_const(cv.name)
        if cv.name not in self.repo.classes:
            return self.eng.external_class_attr(self, cv, name, node)
        r = self.repo.resolve_method(cv.name, name, ayns=False)
        if r is None:
            nested = self.repo.classes.get(name)
            if nested is not None:
                return ClassV(name)
            self.unsupported(node, f'class attribute {cv.name}.{name}')
        if isinstance(r, tuple):
            if r[0] == 'builtin':
                return BuiltinV(f'{r[1]}.{name}')
            return self.eng.class_const(self, r[1], name, r[2], node)
        if r.kind == 'classmethod':
            return FuncV(r, bound=cv)
        return FuncV(r)

    def ayns_getattr(self, a, name, fr, node):
        if a.obj is None:
            r = self.repo.resolve_method(a.cls, name, ayns=True)
            if r is None:
                self.unsupported(node, f'{a.cls}.ayns.{name} not found')
            return FuncV(r)          # unbound: first argument is self
        v = a.obj
        groups, found = {}, {}
        for c in self.classes_of(v):
            r = self.repo.resolve_method(c, name, ayns=True, after=a.after)
            k = id(r) if r is not None else None
            groups.setdefault(k, []).append(c)
            found[k] = r
        if None in groups and len(groups) > 1:
            # classes without such a member: the access would raise AttributeError there
            bad = groups.pop(None)
            r_ = sym.r_of(v.t)
            self.maybe_raise(z3.Not(z3.Or([self.heap.cls(r_) == self.eng.class_id(c) for c in bad])), 'AttributeError', fr, node, f'.ayns.{name} on non-object of a class without it')
        k = self.narrow(v, groups, f'dispatch-ayns.{name}')
        fi = found[k]
        if fi is None:
            self.unsupported(node, f'ayns.{name} not found for {groups[k]}')
        if fi.kind == 'property':
            return self.call_func(fi, [v], {}, node, fr)
        if fi.kind == 'staticproperty':
            return self.call_func(fi, [], {}, node, fr)
        if fi.kind == 'staticmethod':
            return FuncV(fi)
        return FuncV(fi, bound=v)

    def setattr_(self, v, name, val, fr, node):
        if isinstance(v, SV):
            # classes with a user-defined __setattr__ (ConfigDict): names starting with '_' go to the instance
            if not name.startswith('_'):
                groups, found = {}, {}
                for c in self.classes_of(v):
                    r = self.repo.resolve_method(c, '__setattr__')
                    k = id(r) if not isinstance(r, tuple) else None
                    groups.setdefault(k, []).append(c)
                    found[k] = r
                k = self.narrow(v, groups, 'dispatch-__setattr__')
                if k is not None and found[k] is not None:
                    return self.call_func(found[k], [v, sv_const(name), val], {}, node, fr)
            self.heap.put(name, sym.r_of(v.t), self.store_val(val, node))
            return
        if isinstance(v, SlotV) and name == 'value':
            self.heap.put('$slot:' + v.name, z3.IntVal(0), self.sv(val, node).t)
            return
        if isinstance(v, ExcV):
            v.fields[name] = val
            return
        if isinstance(v, ClassV):
            self.heap.put(f'$classattr:{v.name}.{name}', z3.IntVal(0), self.sv(val, node).t)
            return
        self.unsupported(node, f'attribute store on {v!r}')
