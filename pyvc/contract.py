"""Contract objects (sidecar specifications of real functions) and the registry."""
import z3
from . import sym


class P:
    """parameter specification"""

    def __init__(self, name, kind, **kw):
        self.name = name
        self.kind = kind          # node | val | path | const | map | list | obj | pyval | set | pset | kwargs | func | tuple
        self.kw = kw

    @staticmethod
    def node(name, cls='ConfigNode', exact=False, ref=None, **kw):
        """an object of class `cls` (or, unless exact, any subclass in the closed class table)"""
        return P(name, 'node', cls=cls, exact=exact, ref=ref, **kw)

    @staticmethod
    def val(name, kind='any'):
        """a dynamic value: any | bool | int | str | optbool | optint | optstr | noneornode | prim"""
        return P(name, 'val', vkind=kind)

    @staticmethod
    def path(name):
        return P(name, 'path')

    @staticmethod
    def const(name, value):
        return P(name, 'const', value=value)

    @staticmethod
    def map(name, ref=None, **kw):
        return P(name, 'map', ref=ref, **kw)

    @staticmethod
    def list(name, ref=None):
        return P(name, 'list', ref=ref)

    @staticmethod
    def pset(name, ref=None, optional=False):
        return P(name, 'pset', ref=ref, optional=optional)

    @staticmethod
    def obj(name, cls, ref=None):
        return P(name, 'node', cls=cls, exact=True, ref=ref)

    @staticmethod
    def func(name, spec=None):
        """a callable argument; `spec` is a Contract-like object describing what is known about it"""
        return P(name, 'func', spec=spec)

    @staticmethod
    def pyval(name, value):
        """an interpreter-level value passed as is"""
        return P(name, 'pyval', value=value)


class Raises:
    def __init__(self, cls, when=None, exact=False, name=None):
        self.cls = cls
        self.when = when          # fn(c) -> Bool : condition (over the pre-state) under which it is raised
        self.exact = exact        # True: raised iff `when`
        self.name = name or cls


class Loop:
    def __init__(self, inv, mod_locals=(), mod_fields=(), decreases=None, mod_objs=None, note='', mod_at=None, mod_where=None):
        self.mod_at = mod_at            # optional fn(c, L) -> [(field, [refs])]: fields havocked only at these objects
        self.mod_where = mod_where      # optional fn(c, L) -> [(field, pred(r) -> Bool)]: fields havocked at the objects satisfying pred
        self.inv = inv                  # fn(c, L) -> list of (name, Bool) or Bool
        self.mod_locals = tuple(mod_locals)
        self.mod_fields = tuple(mod_fields)   # heap fields havocked by the loop (whole arrays)
        self.decreases = decreases
        self.mod_objs = mod_objs        # optional fn(c, L) -> list of refs: restrict havoc to these objects
        self.note = note


class Contract:
    def __init__(self, key, params, name=None, requires=None, ensures=(), raises=(), modifies=None,
                 loops=None, result=None, inline=(), props=(), pure=False, note='', may_raise_other=False,
                 fresh_result=False, assume_only=False, callee_only=False, effects=(), decorators='keep',
                 yields=None, opts=None):
        self.key = key
        self.name = name or 'default'
        self.params = params
        self.requires = requires
        self.ensures = list(ensures)          # [(name, fn(c) -> Bool)]
        self.raises = list(raises)
        self.modifies = modifies              # fn(c) -> list of (field, [ref terms]) ; None = pure
        self.loops = loops or {}
        self.result = result                  # P spec of the result (kind/cls) for call sites
        self.inline = set(inline)
        self.props = tuple(props)
        self.pure = pure
        self.note = note
        self.assume_only = assume_only        # assumed contract on a dependency (never proved) - listed in evidence
        self.callee_only = callee_only
        self.effects = effects
        self.decorators = decorators
        self.yields = yields
        self.opts = opts or {}

    @property
    def id(self):
        return f'{self.key}#{self.name}'


class Registry:
    def __init__(self):
        self.by_key = {}          # key -> [Contract]
        self.inline_keys = set()  # callee keys executed from their source at every call site
        self.opaque = {}          # dotted name -> description (trusted external functions)
        self.effects = {}         # dotted external name -> effect tag (dangerous operations)
        self.lemmas = []
        self.constants = {}       # dotted external name -> python constant
        self.structural = []

    def add(self, c):
        self.by_key.setdefault(c.key, []).append(c)
        return c

    def get(self, key):
        return self.by_key.get(key, [])

    def all(self):
        for cs in self.by_key.values():
            yield from cs


class SpecCtx:
    """what a contract clause sees: arguments, pre heap, post heap, result"""

    def __init__(self, eng, args, pre, post=None, res=None, exc=None, extra=None):
        self.eng = eng
        self.a = args              # name -> value wrapper
        self.pre = pre
        self.post = post if post is not None else pre
        self.res = res
        self.exc = exc
        self.x = extra if extra is not None else {}

    def __getitem__(self, name):
        """z3 Val term of argument `name`"""
        v = self.a[name]
        return v.t if hasattr(v, 't') else v

    def ref(self, name):
        return sym.simp(sym.r_of(self[name]))

    @property
    def rt(self):
        return self.res.t if hasattr(self.res, 't') else self.res

    def alive(self, r):
        """object identity r denotes an object that exists in the pre-state of this call.  While a function is verified
        these are the positive identities; at a call site also everything the caller has allocated so far."""
        n = getattr(self, 'nalloc', None)
        if n is None:
            return r > 0
        fl = getattr(self, 'floor', None)
        if fl is None:
            return z3.Or(r > 0, z3.And(r < 0, r >= -n), r < -1000000)
        # objects created by callees so far have identities in [floor, -10^6); everything below the floor does not exist yet
        return z3.Or(r > 0, z3.And(r < 0, r >= -n), z3.And(r < -1000000, r >= fl))

    def cid(self, clsname):
        return self.eng.class_id(clsname)

    def isinst(self, heap, ref, clsname):
        return self.eng.isinstance_term(heap.cls(ref), clsname)
