"""Statement execution (mixin of Interp)."""
import ast
import z3
from . import sym
from .sym import Val, MapT, ListT, Heap
from .values import *
from .core import *
from .interp import exc_is, LoopCtx


def _simple_expr(e):
    for n in ast.walk(e):
        if isinstance(n, (ast.Call, ast.Yield, ast.YieldFrom, ast.Lambda, ast.ListComp, ast.DictComp, ast.GeneratorExp, ast.SetComp, ast.Await, ast.NamedExpr,
                          ast.Dict, ast.List, ast.Set, ast.Subscript)):
            return False
    return True


def _simple_branch(stmts):
    """assignments of call-free expressions to names / attributes, `pass`, and nested ifs of the same shape"""
    for st in stmts:
        if isinstance(st, ast.Pass):
            continue
        if isinstance(st, ast.Assign):
            if not _simple_expr(st.value):
                return False
            for t in st.targets:
                if not isinstance(t, (ast.Name, ast.Attribute)) or not _simple_expr(t):
                    return False
            continue
        if isinstance(st, ast.If):
            if not _simple_expr(st.test) or not _simple_branch(st.body) or not _simple_branch(st.orelse):
                return False
            continue
        return False
    return True


class StmtMixin:

    def exec_block(self, stmts, fr):
        for st in stmts:
            self.exec_stmt(st, fr)

    def exec_stmt(self, st, fr):
        m = getattr(self, 'st_' + type(st).__name__, None)
        if m is None:
            self.unsupported(st, f'statement {type(st).__name__}')
        self.cur_line = getattr(st, 'lineno', None)
        return m(st, fr)

    def st_Expr(self, st, fr):
        if isinstance(st.value, ast.Constant):
            return
        self.ev(st.value, fr)

    def st_Pass(self, st, fr):
        pass

    def st_Import(self, st, fr):
        for a in st.names:
            fr.loc[a.asname or a.name.split('.')[0]] = ModV(a.name if a.asname else a.name.split('.')[0])

    def st_ImportFrom(self, st, fr):
        for a in st.names:
            fr.loc[a.asname or a.name] = self.eng.import_from(self, fr, st, a)

    def st_Global(self, st, fr):
        fr.globals_decl.update(st.names)

    def st_Nonlocal(self, st, fr):
        fr.nonlocals.update(st.names)

    def st_FunctionDef(self, st, fr):
        key = f'{fr.fi.module.relpath}::{fr.fi.qualname}.{st.name}'
        fi = self.repo.funcs.get(key)
        if fi is None:
            self.unsupported(st, f'nested function {key} not indexed')
        fr.loc[st.name] = FuncV(fi, closure=fr)

    def st_Return(self, st, fr):
        v = self.ev(st.value, fr) if st.value is not None else NONE
        raise ReturnEx(v)

    def st_Assign(self, st, fr):
        v = self.ev(st.value, fr)
        for t in st.targets:
            self.assign(t, v, fr)

    def st_AnnAssign(self, st, fr):
        if st.value is not None:
            self.assign(st.target, self.ev(st.value, fr), fr)

    def st_AugAssign(self, st, fr):
        if isinstance(st.target, ast.Name):
            cur = self.ev(ast.Name(id=st.target.id, ctx=ast.Load()), fr)
        elif isinstance(st.target, ast.Attribute):
            cur = self.getattr_(self.ev(st.target.value, fr), st.target.attr, fr, st)
        else:
            cur = self.ev(ast.Subscript(value=st.target.value, slice=st.target.slice, ctx=ast.Load()), fr)
        new = self.binop(st.op, cur, self.ev(st.value, fr), fr, st)
        self.assign(st.target, new, fr)

    def assign(self, t, v, fr):
        if isinstance(t, ast.Name):
            if t.id in fr.nonlocals:
                f, _ = fr.closure.lookup(t.id) if fr.closure else (None, None)
                if f is None:
                    self.unsupported(t, f'nonlocal {t.id} not found')
                f.loc[t.id] = v
            elif t.id in fr.globals_decl:
                self.eng.global_store(self, fr, t.id, v, t)
            else:
                fr.loc[t.id] = v
        elif isinstance(t, (ast.Tuple, ast.List)):
            items = self.unpack(v, len(t.elts), t, fr)
            for e, x in zip(t.elts, items):
                self.assign(e, x, fr)
        elif isinstance(t, ast.Attribute):
            obj = self.ev(t.value, fr)
            self.setattr_(obj, t.attr, v, fr, t)
        elif isinstance(t, ast.Subscript):
            obj = self.ev(t.value, fr)
            if isinstance(t.slice, ast.Slice):
                return self.slice_set(obj, t.slice, v, fr, t)
            k = self.ev(t.slice, fr)
            self.subscript_set(obj, k, v, fr, t)
        else:
            self.unsupported(t, 'assignment target')

    def unpack(self, v, n, node, fr):
        if isinstance(v, TupleV):
            if len(v.items) != n:
                self.unsupported(node, 'tuple unpack arity')
            return list(v.items)
        items = self.concrete_iter(v, node, fr)
        if len(items) != n:
            self.unsupported(node, 'unpack arity')
        return items

    def subscript_set(self, obj, k, v, fr, node):
        if isinstance(obj, OpaqueV):
            return self.eng.opaque_setitem(self, obj, k, v, node)
        obj = self.sv(obj, node)
        r = sym.r_of(obj.t)
        groups, fis = {}, {}
        for c in self.classes_of(obj):
            m = self.repo.resolve_method(c, '__setitem__') if c in self.repo.classes else ('builtin', c, '__setitem__')
            if isinstance(m, tuple):
                groups.setdefault(m[1], []).append(c)
            elif m is None:
                groups.setdefault(None, []).append(c)
            else:
                groups.setdefault(id(m), []).append(c)
                fis[id(m)] = m
        g = self.narrow(obj, groups, 'setitem')
        if g in fis:
            return self.call_func(fis[g], [obj, k, v], {}, node, fr)
        self.builtin_setitem(g, obj, k, v, fr, node)

    def builtin_setitem(self, kind, obj, k, v, fr, node):
        r = sym.r_of(obj.t)
        kt = self.sv(k, node).t
        vt = self.store_val(v, node)
        if kind == 'dict':
            m = self.heap.m(r)
            h = sym.simp(m.has(kt))
            if not (z3.is_true(h) or z3.is_false(h)) and not self.run.no_fork:
                # fork on "key already present": keeps the stored arrays free of ite (usable as quantifier triggers)
                if self.run.decide(h, 'dict-key-present'):
                    self.heap.put_m(r, MapT(m.len, m.keyat, m.pos, z3.Store(m.val, kt, vt)))
                else:
                    self.heap.put_m(r, MapT(m.len + 1, z3.Store(m.keyat, m.len, kt), z3.Store(m.pos, kt, m.len), z3.Store(m.val, kt, vt)))
                return
            self.heap.put_m(r, self.map_set_simpl(m, kt, vt))
        elif kind == 'list':
            l = self.heap.l(r)
            i = self.as_int(SV(kt))
            self.maybe_raise(z3.And(-l.len <= i, i < l.len), 'IndexError', fr, node, 'list[index]=')
            i = sym.simp(z3.If(i < 0, l.len + i, i))
            self.heap.put_l(r, l.set(i, vt))
        else:
            self.unsupported(node, f'item store on {kind}')

    def slice_set(self, obj, sl, v, fr, node):
        # only `lst[i:i+1] = other_list` (Builder.preprocess) is in the subset
        obj = self.sv(obj, node)
        r = sym.r_of(obj.t)
        lo = self.as_int(self.sv(self.ev(sl.lower, fr), node))
        hi = self.as_int(self.sv(self.ev(sl.upper, fr), node))
        src = self.sv(v, node)
        ls = self.heap.l(sym.r_of(src.t))
        l = self.heap.l(r)
        self.run.oblige(f'slice-bounds@{node.lineno}', z3.And(0 <= lo, lo <= hi, hi <= l.len), kind='safety', lineno=node.lineno)
        i = z3.Int('!i')
        item = z3.Lambda([i], z3.If(i < lo, z3.Select(l.item, i),
                                    z3.If(i < lo + ls.len, z3.Select(ls.item, i - lo), z3.Select(l.item, i - ls.len + (hi - lo)))))
        self.heap.put_l(r, ListT(l.len - (hi - lo) + ls.len, item))

    def st_Delete(self, st, fr):
        for t in st.targets:
            if isinstance(t, ast.Subscript):
                obj = self.ev(t.value, fr)
                k = self.ev(t.slice, fr)
                self.subscript_del(obj, k, fr, t)
            elif isinstance(t, ast.Name):
                fr.loc.pop(t.id, None)
            elif isinstance(t, ast.Attribute):
                obj = self.sv(self.ev(t.value, fr), t)
                self.heap.put(t.attr, sym.r_of(obj.t), sym.UNDEF)
            else:
                self.unsupported(t, 'del target')

    def subscript_del(self, obj, k, fr, node):
        obj = self.sv(obj, node)
        r = sym.r_of(obj.t)
        groups, fis = {}, {}
        for c in self.classes_of(obj):
            m = self.repo.resolve_method(c, '__delitem__') if c in self.repo.classes else ('builtin', c, '__delitem__')
            if isinstance(m, tuple):
                groups.setdefault(m[1], []).append(c)
            else:
                groups.setdefault(id(m), []).append(c)
                fis[id(m)] = m
        g = self.narrow(obj, groups, 'delitem')
        if g in fis:
            return self.call_func(fis[g], [obj, k], {}, node, fr)
        self.builtin_delitem(g, obj, k, fr, node)

    def builtin_delitem(self, kind, obj, k, fr, node):
        r = sym.r_of(obj.t)
        kt = self.sv(k, node).t
        if kind == 'dict':
            m = self.heap.m(r)
            self.maybe_raise(m.has(kt), 'KeyError', fr, node, 'del dict[key]')
            self.heap.put_m(r, m.delete(kt))
        elif kind == 'list':
            l = self.heap.l(r)
            i = self.as_int(SV(kt))
            self.maybe_raise(z3.And(-l.len <= i, i < l.len), 'IndexError', fr, node, 'del list[index]')
            i = sym.simp(z3.If(i < 0, l.len + i, i))
            self.heap.put_l(r, l.delete(i))
        else:
            self.unsupported(node, f'item delete on {kind}')

    def st_If(self, st, fr):
        c = self.truth(self.ev(st.test, fr), fr, st)
        cs = sym.simp(c)
        if not (z3.is_true(cs) or z3.is_false(cs)) and _simple_branch(st.body) and _simple_branch(st.orelse):
            if self.try_if_conversion(cs, st, fr):
                return
        if self.run.decide(c, f'if@{st.lineno}'):
            self.exec_block(st.body, fr)
        else:
            self.exec_block(st.orelse, fr)

    def try_if_conversion(self, c, st, fr):
        """state merging for branches made of plain assignments: both sides are executed under the guard and
        the resulting stores are joined with ite; falls back to forking when a branch needs a decision"""
        run = self.run
        snap = (dict(fr.loc), dict(self.heap.a), len(run.pc), len(run.obls), len(run.events), run.nfresh, run.nalloc, dict(run.boxes))

        def restore():
            fr.loc.clear(); fr.loc.update(snap[0])
            self.heap.a.clear(); self.heap.a.update(snap[1])
            del run.pc[snap[2]:]
            del run.obls[snap[3]:]
            del run.events[snap[4]:]
            run.nfresh, run.nalloc = snap[5], snap[6]
            run.boxes.clear(); run.boxes.update(snap[7])

        results = []
        run.no_fork += 1
        run.solver.push()
        try:
            for guard, body in ((c, st.body), (sym.simp(z3.Not(c)), st.orelse)):
                fr.loc.clear(); fr.loc.update(snap[0])
                self.heap.a.clear(); self.heap.a.update(snap[1])
                n0 = len(run.pc)
                run.pc.append(guard)
                run.solver.push()
                run.solver.add(guard)
                try:
                    self.exec_block(body, fr)
                except (NoForkAbort, Stop, Unsupported):
                    run.solver.pop()
                    restore()
                    return False
                run.solver.pop()
                extra = run.pc[n0 + 1:]
                del run.pc[n0:]
                results.append((guard, dict(fr.loc), dict(self.heap.a), extra))
        finally:
            run.no_fork -= 1
            run.solver.pop()
        (g1, l1, h1, e1), (g2, l2, h2, e2) = results
        # join
        loc = {}
        for k in set(l1) | set(l2):
            a, b = l1.get(k), l2.get(k)
            if a is b:
                loc[k] = a
            elif isinstance(a, SV) and isinstance(b, SV):
                loc[k] = SV(sym.simp(z3.If(c, a.t, b.t)), hint=(a.hint | b.hint) if a.hint and b.hint else None)
            elif isinstance(a, PathV) and isinstance(b, PathV):
                loc[k] = PathV(z3.If(c, a.s, b.s))
            else:
                restore()
                return False
        heap = {}
        for k in set(h1) | set(h2):
            a, b = h1.get(k), h2.get(k)
            if a is None or b is None:
                base = z3.Const(f'H0!{k}', sym.heap_sort(k))
                a = a if a is not None else base
                b = b if b is not None else base
            heap[k] = a if a.eq(b) else z3.If(c, a, b)
        fr.loc.clear(); fr.loc.update(loc)
        self.heap.a.clear(); self.heap.a.update(heap)
        for g, extra in ((g1, e1), (g2, e2)):
            for x in extra:
                run.assume(z3.Implies(g, x))
        return True

    def st_Assert(self, st, fr):
        c = self.truth(self.ev(st.test, fr), fr, st)
        if self.contract.opts.get('asserts_are_checks'):
            # the assertion is a run-time check of this function (its failure is an exception the contract talks about)
            if not self.run.decide(c, f'assert@{st.lineno}'):
                self.raise_('AssertionError', st)
            return
        self.run.oblige(f'assert@{st.lineno}', c, kind='assert', lineno=st.lineno)
        self.run.assume(c)

    def st_Raise(self, st, fr):
        if st.exc is None:
            if getattr(fr, 'cur_exc', None) is None:
                self.unsupported(st, 'bare raise outside handler')
            raise RaiseEx(fr.cur_exc)
        e = self.ev(st.exc, fr)
        if isinstance(e, ClassV):
            e = ExcV(e.name, lineno=st.lineno)
        if not isinstance(e, ExcV):
            self.unsupported(st, f'raise of {e!r}')
        if st.cause is not None:
            c = self.ev(st.cause, fr)
            e.cause = c
        e.lineno = st.lineno
        raise RaiseEx(e)

    def st_Try(self, st, fr):
        hs = []
        for h in st.handlers:
            if h.type is None:
                hs.append(None)
            elif isinstance(h.type, ast.Tuple):
                hs.extend(self.exc_name(e) for e in h.type.elts)
            else:
                hs.append(self.exc_name(h.type))
        try:
            try:
                fr.catching.append(hs)
                try:
                    self.exec_block(st.body, fr)
                finally:
                    fr.catching.pop()
            except RaiseEx as rx:
                handled = False
                for h in st.handlers:
                    names = [None] if h.type is None else ([self.exc_name(e) for e in h.type.elts] if isinstance(h.type, ast.Tuple) else [self.exc_name(h.type)])
                    if any(nm is None or exc_is(rx.exc.cls, nm) for nm in names):
                        handled = True
                        if h.name:
                            fr.loc[h.name] = rx.exc
                        old = getattr(fr, 'cur_exc', None)
                        fr.cur_exc = rx.exc
                        try:
                            self.exec_block(h.body, fr)
                        except RaiseEx as r2:
                            if r2.exc is not rx.exc and r2.exc.cause is None:
                                r2.exc.fields.setdefault('__context__', rx.exc)
                            raise
                        finally:
                            fr.cur_exc = old
                        break
                if not handled:
                    raise
            else:
                self.exec_block(st.orelse, fr)
        except PathEnd:
            raise
        except Stop:
            if st.finalbody:
                self.exec_block(st.finalbody, fr)
            raise
        else:
            if st.finalbody:
                self.exec_block(st.finalbody, fr)

    def exc_name(self, n):
        if isinstance(n, ast.Name):
            return n.id
        if isinstance(n, ast.Attribute):
            return n.attr
        self.unsupported(n, 'exception class expression')

    def st_Break(self, st, fr):
        raise BreakEx()

    def st_Continue(self, st, fr):
        raise ContinueEx()

    # ------------------------------------------------------------------ with
    def st_With(self, st, fr):
        self.exec_with(st.items, st.body, fr, st)

    def exec_with(self, items, body, fr, st):
        if not items:
            return self.exec_block(body, fr)
        item = items[0]
        cm = self.eval_call(item.context_expr, fr, as_cm=True) if isinstance(item.context_expr, ast.Call) else self.ev(item.context_expr, fr)
        if isinstance(cm, OpaqueV) and cm.tag == 'cm-opaque':
            if item.optional_vars is not None:
                self.assign(item.optional_vars, cm.payload, fr)
            return self.exec_with(items[1:], body, fr, st)
        if not (isinstance(cm, tuple) and cm[0] == 'cm'):
            self.unsupported(st, f'context manager {cm!r}')
        _, fi, cfr = cm
        pending = {}

        def on_yield(v):
            if item.optional_vars is not None:
                self.assign(item.optional_vars, v, fr)
            try:
                self.exec_with(items[1:], body, fr, st)
            except RaiseEx:
                raise
            except PathEnd:
                raise
            except Stop as s:
                pending['stop'] = s        # return/break/continue: __exit__(None...) resumes the generator normally
        cfr.on_yield = on_yield
        try:
            self.depth += 1
            try:
                self.exec_block(fi.node.body, cfr)
            finally:
                self.depth -= 1
        except ReturnEx:
            pass
        if 'stop' in pending:
            raise pending['stop']

    def do_yield(self, v, fr, node):
        if fr.on_yield is not None:
            return fr.on_yield(v)
        if fr.yields is not None:
            r = fr.yields
            l = self.heap.l(r)
            self.heap.put_l(r, ListT(sym.simp(l.len + 1), z3.Store(l.item, l.len, self.store_val(v, node))))
            # ghost: the components of yielded pairs, as two parallel lists the contract can talk about (a yielded tuple itself
            # is an interpreter-level box); a path component is recorded in the ghost path table of the yields object
            parts = getattr(fr, 'yparts', None)
            if parts and isinstance(v, TupleV) and len(v.items) == len(parts):
                for pr, comp in zip(parts, v.items):
                    pl = self.heap.l(pr)
                    if isinstance(comp, PathV):
                        tbl = self.heap.get('$ypath', pr)
                        self.heap.put('$ypath', pr, z3.Store(tbl, pl.len, comp.s))
                        t = sym.NONE
                    else:
                        t = self.store_val(comp, node)
                        if isinstance(comp, SV):
                            # ghost: where this object was yielded (lets a contract state completeness without an existential)
                            pos = self.heap.get('$ypos', pr)
                            self.heap.put('$ypos', pr, z3.Store(pos, sym.r_of(t), pl.len))
                    self.heap.put_l(pr, ListT(sym.simp(pl.len + 1), z3.Store(pl.item, pl.len, t)))
            self.eng.yield_hook(self, fr, v, node)
            return
        self.unsupported(node, 'yield outside generator context')

    # ------------------------------------------------------------------ loops
    def iter_spec(self, it, node, fr):
        """('concrete', [values]) or ('sym', n_term, elem_fn(i)->value, snapshot)"""
        if isinstance(it, TupleV):
            return ('concrete', list(it.items))
        if isinstance(it, IterV):
            k = it.kind
            if k == 'pyseq':
                return ('concrete', list(it.a))
            if k == 'range':
                lo, hi = it.a, it.b
                lo_s, hi_s = sym.simp(lo), sym.simp(hi)
                if z3.is_int_value(lo_s) and z3.is_int_value(hi_s):
                    return ('concrete', [SV(sym.mk_int(i)) for i in range(lo_s.as_long(), hi_s.as_long())])
                n = sym.simp(z3.If(hi_s > lo_s, hi_s - lo_s, 0))
                return ('sym', n, lambda i: SV(sym.mk_int(lo_s + i)), None)
            if k in ('items', 'keys', 'values'):
                m = it.a
                n = self.run.concretize(m.len)
                def elem(i, m=m, k=k):
                    key = z3.Select(m.keyat, i)
                    if k == 'keys':
                        return self.unbox(key)
                    val = z3.Select(m.val, key)
                    if k == 'values':
                        return self.unbox(val)
                    return TupleV([self.unbox(key), self.unbox(val)])
                if z3.is_int_value(n):
                    return ('concrete', [elem(z3.IntVal(i)) for i in range(n.as_long())])
                # built-in dict invariant (trusted axiom of dict objects), instantiated at the iteration index
                self._iter_facts = lambda i, m=m: z3.Select(m.pos, z3.Select(m.keyat, i)) == i
                return ('sym', n, elem, m)
            if k == 'list':
                l = it.a
                n = sym.simp(l.len)
                if z3.is_int_value(n):
                    return ('concrete', [self.unbox(z3.Select(l.item, i)) for i in range(n.as_long())])
                return ('sym', n, lambda i, l=l: self.unbox(z3.Select(l.item, i)), l)
            if k == 'reversed':
                inner = self.iter_spec(it.a, node, fr)
                if inner[0] == 'concrete':
                    return ('concrete', list(reversed(inner[1])))
                _, n, el, snap = inner
                return ('sym', n, lambda i: el(n - 1 - i), snap)
            if k == 'enumerate':
                inner = self.iter_spec(it.a, node, fr)
                start = it.b or 0
                if inner[0] == 'concrete':
                    return ('concrete', [TupleV([sv_const(i + start), x]) for i, x in enumerate(inner[1])])
                _, n, el, snap = inner
                return ('sym', n, lambda i: TupleV([SV(sym.mk_int(i + start)), el(i)]), snap)
            if k == 'zip':
                specs = [self.iter_spec(x, node, fr) for x in it.a]
                if all(s[0] == 'concrete' for s in specs):
                    return ('concrete', [TupleV(list(xs)) for xs in zip(*[s[1] for s in specs])])
                self.unsupported(node, 'zip over symbolic sequences')
            if k == 'path':
                s = it.a
                n = sym.simp(z3.Length(s))
                if z3.is_int_value(n):
                    return ('concrete', [SV(sym.simp(s[i])) for i in range(n.as_long())])
                return ('sym', n, lambda i: SV(s[i]), s)
            if k == 'walk':
                # result of the tree walk (contract of nodes_with_paths): node identities in `a` (ListT), paths given by a ghost function
                l, pathfn = it.a, it.b
                n = sym.simp(l.len)
                return ('sym', n, lambda i, l=l: TupleV([PathV(pathfn(sym.r_of(z3.Select(l.item, i)))), SV(z3.Select(l.item, i))]), l)
            if k == 'pairs':
                # result of a generator of (path, node) pairs under contract: node identities in list `a`, paths in the ghost table `b`
                l, tbl = it.a, it.b[0]
                n = sym.simp(l.len)
                return ('sym', n, lambda i, l=l, tbl=tbl: TupleV([PathV(z3.Select(tbl, i)), SV(z3.Select(l.item, i))]), (l, tbl))
            if k == 'lazygen':
                self.unsupported(node, 'iteration over a generator expression')
            self.unsupported(node, f'iteration over {k}')
        if isinstance(it, PathV):
            return self.iter_spec(IterV('path', it.s), node, fr)
        if isinstance(it, OpaqueV):
            return self.eng.opaque_iter(self, it, node, fr)
        it = self.sv(it, node)
        r = sym.r_of(it.t)
        kinds = {}
        for c in self.classes_of(it):
            kinds.setdefault(self.eng.iter_rule(c), []).append(c)
        k = self.narrow(it, kinds, 'iter')
        if k == 'list':
            return self.iter_spec(IterV('list', self.heap.l(r)), node, fr)
        if k == 'dict':
            return self.iter_spec(IterV('keys', self.heap.m(r)), node, fr)
        self.unsupported(node, f'iteration over object of kind {k}')

    def concrete_iter(self, it, node, fr):
        s = self.iter_spec(it, node, fr)
        if s[0] != 'concrete':
            self.unsupported(node, 'iteration needs a concrete shape here')
        return s[1]

    def loop_spec(self, st, fr):
        if fr.fi is None or fr.fi.key != self.top_fi.key:
            return None
        o = fr.loop_ord.get(id(st))
        return self.contract.loops.get(o)

    def st_For(self, st, fr):
        it = self.ev(st.iter, fr)
        spec = self.iter_spec(it, st, fr)
        if spec[0] == 'concrete':
            items = spec[1]
            if len(items) > self.MAX_UNROLL:
                self.unsupported(st, 'unrolling bound exceeded')
            broke = False
            for x in items:
                self.assign(st.target, x, fr)
                try:
                    self.exec_block(st.body, fr)
                except BreakEx:
                    broke = True
                    break
                except ContinueEx:
                    continue
            if not broke:
                self.exec_block(st.orelse, fr)
            return
        _, n, elem, snap = spec
        ls = self.loop_spec(st, fr)
        if ls is None:
            self.unsupported(st, f'loop over a symbolic collection needs an invariant (loop #{fr.loop_ord.get(id(st))} of {fr.fi.key if fr.fi else "?"})')
        self.run_loop(st, fr, ls, n=n, elem=elem, snap=snap)

    def st_While(self, st, fr):
        ls = self.loop_spec(st, fr)
        if ls is None:
            # try bounded concrete unrolling: only if every test folds to a constant
            for _ in range(self.MAX_UNROLL):
                c = sym.simp(self.truth(self.ev(st.test, fr), fr, st))
                if z3.is_false(c):
                    self.exec_block(st.orelse, fr)
                    return
                if not z3.is_true(c):
                    self.unsupported(st, f'while loop with a symbolic condition needs an invariant (loop #{fr.loop_ord.get(id(st))} of {fr.fi.key if fr.fi else "?"})')
                try:
                    self.exec_block(st.body, fr)
                except BreakEx:
                    return
                except ContinueEx:
                    continue
            self.unsupported(st, 'unrolling bound exceeded')
        self.run_loop(st, fr, ls, n=None, elem=None, snap=None)

    def havoc_value(self, v, name):
        if isinstance(v, SV):
            t = sym.simp(v.t)
            # containers keep their identity; their content is havocked through mod_fields
            if z3.is_app(t) and t.decl().name() == 'ref' and z3.is_int_value(t.arg(0)) and t.arg(0).as_long() < 0:
                return v
            return SV(self.run.fresh('hv_' + name), hint=v.hint)
        if isinstance(v, PathV):
            return PathV(self.run.fresh('hp_' + name, sym.PathSort))
        return v

    def check_loop_frame(self, st, fr, ls, tag, body_heap, body_loc, c, n, entry_loc, entry_heap, snap, mark):
        ls = _with_ghost_fields(ls)
        """the loop body writes only what the loop specification declares as modified (everything else was NOT havocked
        before the arbitrary iteration, so a write outside the declaration would go unnoticed after the loop)"""
        run = self.run
        declared = set(ls.mod_fields)
        at = {}
        if ls.mod_at is not None:
            for f, refs in ls.mod_at(c, LoopCtx(z3.IntVal(0), n, entry_loc, entry_heap, entry_loc, entry_heap, snap)):
                at.setdefault(f, []).extend(refs)
        if ls.mod_objs is not None:
            objs = ls.mod_objs(c, LoopCtx(z3.IntVal(0), n, entry_loc, entry_heap, entry_loc, entry_heap, snap))
            for f in ls.mod_fields:
                at.setdefault(f, []).extend(objs)
            declared = set()
        where = {}
        if ls.mod_where is not None:
            for f, pred in ls.mod_where(c, LoopCtx(z3.IntVal(0), n, entry_loc, entry_heap, entry_loc, entry_heap, snap)):
                where.setdefault(f, []).append(pred)
        r = z3.Int('!lfr')
        for f, arr in self.heap.a.items():
            if f in declared:
                continue
            old = body_heap.a.get(f)
            if old is None:
                old = body_heap.arr(f)
            if arr.eq(old):
                continue
            # objects allocated by the body itself are not part of the loop's frame
            outside = z3.And([r != x for x in at.get(f, [])] + [z3.Not(p_(r)) for p_ in where.get(f, [])] + [z3.Not(self.allocated_since(r, mark))])
            goal = z3.ForAll([r], z3.Implies(outside, z3.Select(arr, r) == z3.Select(old, r)))
            run.oblige(f'{tag}.frame:{f}', goal, kind='frame', lineno=st.lineno)
        for name, v in fr.loc.items():
            if name in ls.mod_locals:
                continue
            o = body_loc.get(name)
            if o is None or o is v:
                continue
            if isinstance(v, SV) and isinstance(o, SV):
                if not v.t.eq(o.t):
                    run.oblige(f'{tag}.frame-local:{name}', v.t == o.t, kind='frame', lineno=st.lineno)
            elif isinstance(v, PathV) and isinstance(o, PathV):
                if not v.s.eq(o.s):
                    run.oblige(f'{tag}.frame-local:{name}', v.s == o.s, kind='frame', lineno=st.lineno)
            elif type(v) is not type(o):
                run.oblige(f'{tag}.frame-local:{name}', z3.BoolVal(False), kind='frame', lineno=st.lineno)

    def allocated_since(self, r, mark):
        """r is an object the engine allocated after `mark` allocations (concrete negative identities -1, -2, ...) or an object
        created by a callee (identities below -1000000)"""
        return z3.Or(z3.And(r < -mark, r < 0, r > -1000000), r < -1000000)

    def run_loop(self, st, fr, ls, n, elem, snap):
        run = self.run
        facts = getattr(self, '_iter_facts', None)
        self._iter_facts = None
        o = fr.loop_ord.get(id(st))
        tag = f'loop{o}@{st.lineno}'
        entry_loc = dict(fr.loc)
        entry_heap = self.heap.snapshot()
        c = self.spec_ctx()

        def inv_at(i, when):
            L = LoopCtx(i, n, fr.loc, self.heap, entry_loc, entry_heap, snap)
            res = ls.inv(c_now(), L)
            if not isinstance(res, (list, tuple)):
                res = [('inv', res)]
            out = []
            for item in res:
                if len(item) == 3 and (item[2] or {}).get('builtin_axiom'):
                    # a fact about built-in objects that holds in every state (e.g. a dict object is a well-formed ordered map):
                    # part of the trusted model of the built-ins, assumed wherever the invariant is assumed, never an obligation
                    if when == 'assume':
                        out.append((item[0], item[1]))
                    continue
                out.append((item[0], item[1]))
            return L, out

        def c_now():
            cc = self.spec_ctx()
            return cc

        # 1. invariant holds on entry
        _, invs = inv_at(z3.IntVal(0), 'entry')
        for nm, g in invs:
            run.oblige(f'{tag}.{nm}.entry', g, kind='inv_entry', lineno=st.lineno)
        which = run.choose(2, tag)
        # 2. havoc (ghost bookkeeping of a list - the positions of appended values - goes with the list's items)
        ls = _with_ghost_fields(ls)
        for name in ls.mod_locals:
            if name in fr.loc:
                fr.loc[name] = self.havoc_value(fr.loc[name], name)
        objs = None
        if ls.mod_objs is not None:
            objs = ls.mod_objs(c, LoopCtx(z3.IntVal(0), n, entry_loc, entry_heap, entry_loc, entry_heap, snap))
        for f in ls.mod_fields:
            if objs is None:
                self.heap.a[f] = run.fresh('hh_' + f.replace('$', 'S'), sym.heap_sort(f))
            else:
                arr = self.heap.arr(f)
                hv = run.fresh('hh_' + f.replace('$', 'S'), sym.heap_sort(f))
                for r in objs:
                    arr = z3.Store(arr, r, z3.Select(hv, r))
                self.heap.a[f] = arr
        if ls.mod_at is not None:
            for f, refs in ls.mod_at(c, LoopCtx(z3.IntVal(0), n, entry_loc, entry_heap, entry_loc, entry_heap, snap)):
                arr = self.heap.arr(f)
                hv = run.fresh('hh_' + f.replace('$', 'S'), sym.heap_sort(f))
                for r in refs:
                    arr = z3.Store(arr, r, z3.Select(hv, r))
                self.heap.a[f] = arr
        if ls.mod_where is not None:
            rq = z3.Int('!mwr')
            for f, pred in ls.mod_where(c, LoopCtx(z3.IntVal(0), n, entry_loc, entry_heap, entry_loc, entry_heap, snap)):
                arr = self.heap.arr(f)
                hv = run.fresh('hh_' + f.replace('$', 'S'), sym.heap_sort(f))
                run.assume(z3.ForAll([rq], z3.Implies(z3.Not(pred(rq)), z3.Select(hv, rq) == z3.Select(arr, rq)), patterns=[z3.Select(hv, rq)]))
                self.heap.a[f] = hv
        i = run.fresh('it', sym.I)
        if n is not None:
            run.assume(z3.And(0 <= i, i <= n))
        else:
            run.assume(i >= 0)
        L, invs = inv_at(i, 'assume')
        for nm, g in invs:
            run.assume(g)
        if which == 0:
            # body preserves the invariant
            if n is not None:
                run.assume(i < n)
                if facts is not None:
                    run.assume(facts(i))
                self.assign(st.target, elem(i), fr)
            else:
                cnd = self.truth(self.ev(st.test, fr), fr, st)
                run.assume(cnd)
            dec0 = ls.decreases(c_now(), L) if ls.decreases else None
            body_heap = self.heap.snapshot()
            body_loc = dict(fr.loc)
            mark = run.nalloc
            try:
                self.exec_block(st.body, fr)
            except ContinueEx:
                pass
            except BreakEx:
                return                        # leaves the loop: continue after it with the current state
            _, invs2 = inv_at(i + 1, 'pres')
            for nm, g in invs2:
                run.oblige(f'{tag}.{nm}.preserved', g, kind='inv_pres', lineno=st.lineno)
            self.check_loop_frame(st, fr, ls, tag, body_heap, body_loc, c, n, entry_loc, entry_heap, snap, mark)
            if dec0 is not None:
                L2 = LoopCtx(i, n, fr.loc, self.heap, entry_loc, entry_heap, snap)
                dec1 = ls.decreases(c_now(), L2)
                run.oblige(f'{tag}.decreases', z3.And(dec0 >= 0, dec1 < dec0), kind='decreases', lineno=st.lineno)
            raise PathEnd('loop body checked')
        else:
            if n is not None:
                run.assume(i == n)
            else:
                cnd = self.truth(self.ev(st.test, fr), fr, st)
                run.assume(z3.Not(cnd))
            self.exec_block(st.orelse, fr)


GHOST_WITH = {'$litem': ('$lpos',)}


def _with_ghost_fields(ls):
    """loop specification in which every declared modification of a list's items also covers the list's ghost bookkeeping"""
    if getattr(ls, '_ghosted', False):
        return ls
    from .contract import Loop

    def ext(fn):
        if fn is None:
            return None

        def wrapped(c, L, fn=fn):
            out = list(fn(c, L))
            for f, x in list(out):
                for g in GHOST_WITH.get(f, ()):
                    out.append((g, x))
            return out
        return wrapped
    mf = list(ls.mod_fields)
    for f in list(mf):
        for g in GHOST_WITH.get(f, ()):
            if g not in mf:
                mf.append(g)
    new = Loop(ls.inv, mod_locals=ls.mod_locals, mod_fields=mf, decreases=ls.decreases, mod_objs=ls.mod_objs, note=ls.note,
               mod_at=ext(ls.mod_at), mod_where=ext(ls.mod_where))
    new._ghosted = True
    return new
