"""./check <property> --tier quick|thorough [--repo DIR] [--replay FILE]

Exit codes: 0 held / 1 violation (VIOLATION line) / 2 undecided / 3 checker error."""
import argparse
import importlib
import json
import multiprocessing as mp
import os
import re
import sys
import time
import traceback

VERIF = os.path.dirname(os.path.dirname(os.path.abspath(__file__)))
if VERIF not in sys.path:
    sys.path.insert(0, VERIF)

TRUSTED_BASE = [
    'z3 5.1.0 (python API) and cvc5 1.0.3 (CLI) as SMT back ends',
    'pyvc: the VC generator of /verif/pyvc (symbolic execution of the ast of /repo, re-read on every run); mitigated by cover checks, CPython cross-check and mutation self-test',
    'axioms of built-in dict/list operations in pyvc/sym.py and pyvc/interp_call.py (ordered map: len/keyat/pos/val; list: len/item)',
    'induction over finite trees / finite histories lifting one-level contracts and lemmas to whole configs',
    'closed world of node classes (the classes defined in /repo/awesomeyaml); no user subclasses, no monkey-patching, single thread inside a contracted function',
    'PyYAML scanner/parser/composer/resolver/emitter; CPython copy, pickle, inspect, importlib, pathlib, re, tokenize, compile/exec/eval',
    'Python ints are mathematical integers (exact); strings are z3 strings; floats are opaque values with equality only',
]

DROPPED = [
    'docstrings and comments',
    'text of error messages (f-strings are opaque strings; the exception class is kept)',
    'decorators are not executed: @rethrow_as_*_error is replaced by running the body inside the real errors.rethrow_point; @errors.api_entry is transparent (normal behaviour and exception class unchanged); @property/@staticmethod/@namespace resolved through the class table',
    'the `if not utils.python_is_at_least(3, 7)` block of ConfigList (dead on the interpreter in use)',
]


def load_registry():
    from pyvc.contract import Registry
    import contracts
    importlib.reload(contracts)
    R = Registry()
    R.tasks = []
    for m in contracts.ALL:
        mod = importlib.import_module('contracts.' + m)
        getattr(mod, '_reg_all', mod.register)(R)
    return R


def registry_problems(R, eng):
    """contracts that name a function the working tree does not have (assumed ones would otherwise go unnoticed)"""
    return sorted({c.id for c in R.all() if c.key not in eng.repo.funcs})


def props_of_obl(name, contract_props):
    ps = set(re.findall(r'C\d\d', name))
    return sorted(ps) if ps else list(contract_props)


# ----------------------------------------------------------------------------- workers
def work_contract(job):
    repo, cid, tier, want_prop = job[:4]
    shard, nshards = (job[4], job[5]) if len(job) > 4 else (0, 1)
    t0 = time.time()
    rec = {'task': cid, 'kind': 'contract', 'obls': [], 'unsupported': None, 'error': None, 'shard': shard, 'nshards': nshards}
    try:
        from pyvc.engine import Engine
        from pyvc.core import Unsupported
        from pyvc.discharge import discharge
        from pyvc import replay as rp
        R = load_registry()
        eng = Engine(repo, R)
        import contracts.spec as _S
        eng.ghost_defs = _S.ghost_defs
        c = [x for x in R.all() if x.id == cid][0]
        if c.key not in eng.repo.funcs:
            rec['unsupported'] = f'function {c.key} not found in the working tree'
            rec['props'] = list(c.props)
            rec['wall_s'] = time.time() - t0
            return rec
        fi = eng.repo.func(c.key)
        rec.update({'key': c.key, 'sha256': fi.sha256(), 'lines': list(fi.lines()), 'props': list(c.props), 'note': c.note,
                    'assume_only': c.assume_only})
        try:
            res = eng.verify(c)
        except Unsupported as e:
            rec['unsupported'] = str(e)
            rec['wall_s'] = time.time() - t0
            return rec
        rec['paths'] = len(res['paths'])
        rec['ghost_defs'] = res.get('ghost_defs', [])
        rec['path_outcomes'] = sorted(set(p['outcome'] for p in res['paths']))
        rec['gen_s'] = res['gen_s']
        rec['trivial'] = eng.trivial
        open_by_name = {}
        fallback_spent, fallback_budget = 0.0, (120.0 if tier == 'quick' else 1800.0)     # seconds per contract (shard) for portfolio / candidate search / cvc5 on obligations z3 left open; applies only once an obligation of the contract IS open (a contract whose obligations all go through keeps the full effort however loaded the machine is)
        direct_hit = {}       # clause name -> replayed failure (input-independent replays are run once per clause)
        for oi, o in enumerate(res['obls']):
            if oi % nshards != shard:
                continue
            if o.name in direct_hit:
                # the same clause already failed on the real code on another path: no need to spend solver budget again
                orec = dict(direct_hit[o.name])
                orec['path'] = o.path_id
                rec['obls'].append(orec)
                continue
            # a contract with many open obligations (a changed function body): the rest gets one cheap attempt each
            # (the same clause open on several paths already: further paths of that clause get one cheap attempt each; other clauses keep the full effort)
            same_open = open_by_name.get(o.name, 0)
            d = discharge(o, tier, second_opinion=(tier == 'thorough'), cvc5_ok=((fallback_spent < fallback_budget or not open_by_name) and same_open < 3), rl_div=(8 if same_open >= 3 else 1))
            fallback_spent += d.get('cvc5_fallback_seconds', 0) or 0
            if d['status'] != 'proved':
                open_by_name[o.name] = same_open + 1
            orec = {'name': o.name, 'kind': o.kind, 'status': d['status'], 'backend': d['backend'], 'seconds': round(d['seconds'], 4),
                    'quantified': d['quantified'], 'path': o.path_id, 'props': props_of_obl(o.name, c.props), 'size': o.size(),
                    'lineno': o.lineno, 'cvc5': d.get('cvc5')}
            if d['status'] == 'unknown' and d.get('candidate_model') is not None and not c.opts.get('no_model_replay') and o.kind in ('post', 'inv_pres', 'inv_entry', 'frame', 'raise', 'pre', 'assert'):
                # candidate counter-model: believed only if the input it describes makes the real code break the contract
                try:
                    w = rp.make_witness(eng, c, o.info['args'], o.info['pre'], d['candidate_model'])
                    rr = rp.run_witness(eng, c, '*', w, repo, kind='post')
                    if rr['verdict'] == 'violates':
                        orec['status'] = 'refuted'
                        orec['witness'] = w
                        orec['replay'] = rr
                        orec['model'] = 'candidate model (quantifiers instantiated, not model-checked); confirmed by replay'
                    else:
                        orec['candidate_replay'] = rr
                except Exception as e:
                    orec['candidate_replay'] = {'verdict': 'error', 'detail': f'{type(e).__name__}: {e}'}
            if d['status'] == 'unknown' and c.opts.get('replay_direct') and orec['status'] == 'unknown':
                # undecided by the solvers: a contract-specific replay on the real code may still exhibit a failing input
                # (only a replayed failure turns the open obligation into a violation; otherwise it stays undecided)
                try:
                    rp.Builder_(repo)
                    rr = c.opts['replay_direct'](repo, o.name)
                    if rr.get('verdict') == 'violates':
                        orec['status'] = 'refuted'
                        orec['replay'] = rr
                        orec['witness'] = rr.get('input')
                        orec['model'] = 'obligation left open by z3 and cvc5; failing input found by replaying the contract on the real function'
                        direct_hit[o.name] = dict(orec)
                    else:
                        orec['candidate_replay'] = rr
                except Exception as e:
                    orec['candidate_replay'] = {'verdict': 'error', 'detail': f'{type(e).__name__}: {e}'}
            if d['status'] == 'refuted' and c.opts.get('replay_direct'):
                orec['model'] = str(d['model'])[:3000] if d['model'] is not None else None
                try:
                    rp.Builder_(repo)        # make sure the modules of the tree under check are the ones imported
                    orec['replay'] = c.opts['replay_direct'](repo, o.name)
                    orec['witness'] = orec['replay'].get('input')
                except Exception as e:
                    orec['replay'] = {'verdict': 'error', 'detail': f'{type(e).__name__}: {e}'}
            elif d['status'] == 'refuted' and d['model'] is not None:
                orec['model'] = str(d['model'])[:3000]
                if o.kind in ('post', 'raise', 'frame', 'assert', 'safety', 'inv_pres', 'inv_entry', 'pre', 'decreases') and not c.opts.get('no_model_replay'):
                    try:
                        w = rp.make_witness(eng, c, o.info['args'], o.info['pre'], d['model'])
                        orec['witness'] = w
                        clause = o.name.split(':', 1)[1] if ':' in o.name else o.name
                        kind = o.kind if o.kind in ('post', 'raise', 'frame') else 'raise'
                        orec['replay'] = rp.run_witness(eng, c, clause, w, repo, kind=kind)
                        if o.kind not in ('post', 'raise', 'frame') and orec['replay']['verdict'] == 'holds':
                            orec['replay']['verdict'] = 'inconclusive'
                    except Exception as e:
                        orec['replay'] = {'verdict': 'error', 'detail': f'{type(e).__name__}: {e}', 'tb': traceback.format_exc()[-1500:]}
            rec['obls'].append(orec)
        # ---- an input that makes the real function break one clause often breaks the neighbouring clauses too: replay the witnesses
        # found for refuted obligations against the obligations the solvers left open
        wits = [o['witness'] for o in rec['obls'] if o['status'] == 'refuted' and isinstance(o.get('witness'), dict) and (o.get('replay') or {}).get('verdict') == 'violates'
                and 'args' in o['witness']]
        if wits and not c.opts.get('no_model_replay'):
            for o in rec['obls']:
                if o['status'] == 'unknown' and o['kind'] in ('post', 'raise'):
                    clause = o['name'].split(':', 1)[1] if ':' in o['name'] else o['name']
                    for w in wits[:4]:
                        try:
                            rr = rp.run_witness(eng, c, clause, w, repo, kind=o['kind'])
                        except Exception:
                            continue
                        if rr.get('verdict') == 'violates':
                            o.update({'status': 'refuted', 'witness': w, 'replay': rr,
                                      'model': 'obligation left open by the solvers; the failing input of a neighbouring clause also breaks this one on the real function'})
                            break
        # ---- run-time cross-check of the contract on the real function (small random inputs) and, for obligations
        # left open, search for a replayable failing input
        if not c.opts.get('no_search') and shard == 0:
            open_ = [o for o in rec['obls'] if o['status'] != 'proved' and not (o.get('replay') or {}).get('verdict') == 'violates']
            n = (150 if tier == 'quick' else 1500) if open_ else (25 if tier == 'quick' else 300)
            seed = int(os.environ.get('VERIF_SEED', '0') or 0)
            w, rr, st = rp.search(eng, c, '*', repo, n=n, seed=seed)
            rec['cross_check'] = {k: v for k, v in st.items() if k != 'distinct'}
            rec['cross_check']['distinct'] = st['distinct'] if isinstance(st['distinct'], int) else len(st['distinct'])
            if w is not None:
                clause = rr.get('clause', '?')
                hit = False
                for o in rec['obls']:
                    if o['status'] != 'proved' and clause in o['name'] and (o.get('replay') or {}).get('verdict') != 'violates':
                        o['status'] = 'refuted'
                        o['witness'] = w
                        o['replay'] = rr
                        o['model'] = o.get('model') or 'failing input found by bounded search over small inputs (obligation was not discharged)'
                        hit = True
                if not hit:
                    proved_all = all(o['status'] == 'proved' for o in rec['obls'] if clause in o['name']) and any(clause in o['name'] for o in rec['obls'])
                    rec['obls'].append({'name': 'runtime:' + clause, 'kind': 'post', 'status': 'refuted', 'backend': 'cpython', 'seconds': 0.0,
                                        'quantified': False, 'path': '-', 'props': props_of_obl(clause, c.props), 'witness': w, 'replay': rr,
                                        'contradicts_proof': proved_all,
                                        'model': 'contract clause fires on the real function for this input'})
            # clause-directed search for what is still open (the undirected search stops at the first clause that fires)
            still = []
            for o in rec['obls']:
                if o['status'] == 'unknown' and o['kind'] in ('post', 'raise'):
                    cl = o['name'].split(':', 1)[1] if ':' in o['name'] else o['name']
                    if cl not in still:
                        still.append(cl)
            for cl in still[:6]:
                try:
                    w2, rr2, _ = rp.search(eng, c, cl, repo, n=(120 if tier == 'quick' else 1000), seed=seed + 1)
                except Exception:
                    continue
                if w2 is not None:
                    for o in rec['obls']:
                        if o['status'] == 'unknown' and cl in o['name']:
                            o.update({'status': 'refuted', 'witness': w2, 'replay': rr2,
                                      'model': 'failing input found by clause-directed search over small inputs (obligation was not discharged)'})
    except Exception as e:
        rec['error'] = f'{type(e).__name__}: {e}\n{traceback.format_exc()[-3000:]}'
    rec['wall_s'] = time.time() - t0
    return rec


def work_other(job):
    repo, tid, tier, seed = job
    t0 = time.time()
    rec = {'task': tid, 'obls': [], 'unsupported': None, 'error': None}
    try:
        from pyvc.engine import Engine
        R = load_registry()
        t = [x for x in R.tasks if x.id == tid][0]
        rec['kind'] = t.kind
        rec['props'] = list(t.props)
        rec['note'] = t.note
        if t.kind == 'structural':
            eng = Engine(repo, R)
            for name, ok, detail in t.check(eng):
                rec['obls'].append({'name': name, 'kind': 'structural', 'status': 'proved' if ok else 'refuted', 'backend': 'ast',
                                    'seconds': 0.0, 'quantified': False, 'path': '-', 'props': props_of_obl(name, t.props), 'detail': detail})
        elif t.kind == 'lemma':
            import z3
            from pyvc.core import Obl
            from pyvc.discharge import discharge
            eng = Engine(repo, R)
            for name, assumptions, goal in t.build(eng):
                o = Obl(name, 'lemma', assumptions, goal, tid)
                d = discharge(o, tier, second_opinion=(tier == 'thorough'))
                rec['obls'].append({'name': name, 'kind': 'lemma', 'status': d['status'], 'backend': d['backend'], 'seconds': round(d['seconds'], 4),
                                    'quantified': d['quantified'], 'path': '-', 'props': props_of_obl(name, t.props), 'size': o.size(),
                                    'model': str(d['model'])[:2000] if d['model'] is not None else None})
        elif t.kind == 'bounded':
            rec['bound'] = t.bound
            rec['stands_in_for'] = t.stands_in_for
            rec['bounded'] = t.run(repo, tier, seed)
    except Exception as e:
        rec['error'] = f'{type(e).__name__}: {e}\n{traceback.format_exc()[-3000:]}'
    rec['wall_s'] = time.time() - t0
    return rec


# ----------------------------------------------------------------------------- known findings
def load_known():
    known, fixed = [], []
    fn = os.path.join(VERIF, 'KNOWN_FINDINGS.txt')
    if os.path.exists(fn):
        for line in open(fn):
            line = line.strip()
            if line.startswith('known:'):
                m = re.match(r'known:\s+property=(\S+)\s+obligation=(\S+)\s+(.*)', line)
                if m:
                    known.append({'property': m.group(1), 'obligation': m.group(2), 'what': m.group(3)})
            elif line.startswith('fixed:'):
                fixed.append(line)
    return known, fixed


def main(argv=None):
    ap = argparse.ArgumentParser()
    ap.add_argument('prop')
    ap.add_argument('--tier', default=os.environ.get('VERIF_TIER', 'quick'))
    ap.add_argument('--repo', default='/repo')
    ap.add_argument('--replay', default=None)
    ap.add_argument('--jobs', type=int, default=16)
    ap.add_argument('--no-evidence', action='store_true')
    ap.add_argument('-v', action='store_true')
    a = ap.parse_args(argv)
    seed = int(os.environ.get('VERIF_SEED', '0') or 0)
    t0 = time.time()
    os.chdir(VERIF)
    prop = a.prop
    if a.replay:
        return do_replay(a, prop)
    R = load_registry()
    jobs_c, jobs_o = [], []
    for c in R.all():
        if c.assume_only:
            continue
        names = ' '.join(n for n, _ in c.ensures) + ' ' + ' '.join(r.name for r in c.raises) + ' ' + ' '.join(c.opts.get('watch', {}).values())
        if prop in c.props or prop in re.findall(r'C\d\d', names):
            ns = int(c.opts.get('shards', 1))
            for k in range(ns):
                jobs_c.append((a.repo, c.id, a.tier, prop, k, ns))
    for t in R.tasks:
        if prop in t.props:
            if t.kind == 'bounded' and a.tier not in t.tiers:
                continue
            jobs_o.append((a.repo, t.id, a.tier, seed))
    assumed = [c for c in R.all() if c.assume_only and prop in c.props]
    ctx = mp.get_context('fork')
    recs = []
    # every job runs in a process forked freshly from this one (maxtasksperchild=1): the solver context a job starts from - and with
    # it the naming and ordering of the terms it builds, to which the solvers' heuristics are sensitive - does not depend on which
    # jobs the scheduler happened to give the same worker before
    with ctx.Pool(min(a.jobs, max(1, len(jobs_c) + len(jobs_o))), maxtasksperchild=1) as pool:
        r1 = pool.map_async(work_contract, jobs_c, chunksize=1)
        r2 = pool.map_async(work_other, jobs_o, chunksize=1)
        recs = r1.get() + r2.get()
    return conclude(a, prop, recs, assumed, R, seed, t0)


def conclude(a, prop, recs, assumed, R, seed, t0):
    known, fixed = load_known()
    known = [k for k in known if k['property'] == prop]
    n_obl = n_proved = 0
    violations, undecided, errors, known_hit = [], [], [], []
    contradictions = []
    by_backend = {}
    samples = []
    funcs = []
    bounded = []
    solver_s = 0.0
    for r in recs:
        if r.get('error'):
            errors.append((r['task'], r['error']))
            continue
        if r.get('unsupported'):
            undecided.append((r['task'], 'outside subset: ' + r['unsupported']))
        if r.get('kind') == 'contract':
            funcs.append({'contract': r['task'], 'function': r.get('key'), 'sha256': r.get('sha256'), 'lines': r.get('lines'),
                          'paths': r.get('paths'), 'obligations': len([o for o in r['obls'] if prop in o['props']]),
                          'gen_s': round(r.get('gen_s', 0), 3), 'wall_s': round(r['wall_s'], 3), 'runtime_cross_check': r.get('cross_check'),
                          'assumed_ghost_definitions': r.get('ghost_defs') or []})
            if not r.get('unsupported') and r.get('paths', 0) == 0:
                errors.append((r['task'], 'zero paths explored'))
        if r.get('kind') == 'bounded' and r.get('bounded') is not None:
            b = r['bounded']
            bounded.append({'id': r['task'], 'bound': r.get('bound'), 'stands_in_for': r.get('stands_in_for'), 'cases': b.get('cases'),
                            'distinct': b.get('distinct'), 'failures': len(b.get('failures', [])), 'samples': b.get('samples', [])[:3]})
            for f in b.get('failures', []):
                kn = [k for k in known if k['obligation'] in f['name']]
                if kn:
                    known_hit.append((kn[0], f))
                else:
                    violations.append({'task': r['task'], 'name': f['name'], 'kind': 'bounded', 'detail': f.get('detail'), 'input': f.get('input'), 'replayed': True})
            if b.get('error'):
                errors.append((r['task'], b['error']))
        for o in r['obls']:
            if prop not in o['props']:
                continue
            n_obl += 1
            solver_s += o.get('seconds', 0)
            by_backend[o['backend']] = by_backend.get(o['backend'], 0) + 1
            if len(samples) < 8 and o['status'] == 'proved' and o['kind'] in ('post', 'lemma', 'inv_pres', 'dominance', 'structural', 'raise'):
                samples.append({'obligation': f"{r['task']} :: {o['name']}", 'kind': o['kind'], 'path': o['path'], 'backend': o['backend'],
                                'seconds': o['seconds'], 'smt_size': o.get('size')})
            if o['status'] == 'proved':
                n_proved += 1
                continue
            full = f"{r['task']}::{o['name']}"
            kn = [k for k in known if k['obligation'] in full]
            if kn:
                n_obl -= 1      # obligations covered by a recorded finding are reported under known_findings, not counted
            if o['status'] == 'refuted':
                rp_ = o.get('replay') or {}
                v = rp_.get('verdict')
                if kn:
                    known_hit.append((kn[0], {'name': full, 'detail': rp_.get('detail')}))
                    continue
                if o.get('contradicts_proof'):
                    # proved modularly but fires at run time: an engine/assumption problem - unless a callee's contract is
                    # itself violated in this run (then the modular proof rests on a broken contract): decided below
                    contradictions.append((r['task'], o, rp_))
                    continue
                if v == 'violates':
                    violations.append({'task': r['task'], 'name': o['name'], 'kind': o['kind'], 'detail': rp_.get('detail'), 'witness': o.get('witness'),
                                       'model': o.get('model'), 'replayed': True, 'path': o['path']})
                elif v == 'holds' and not o['quantified'] and o['kind'] in ('post', 'raise', 'frame'):
                    errors.append((r['task'], f"definite counter-model of {o['name']} does not replay on the real code: {rp_.get('detail')} (engine model of Python is wrong here)"))
                elif o['kind'] in ('structural', 'dominance', 'lemma') or v in (None, 'inconclusive', 'invalid', 'error', 'holds'):
                    violations.append({'task': r['task'], 'name': o['name'], 'kind': o['kind'], 'detail': o.get('detail') or rp_.get('detail'),
                                       'model': o.get('model'), 'witness': o.get('witness'), 'replayed': False, 'path': o['path']})
            elif o['status'] == 'solver-disagreement':
                errors.append((r['task'], f"z3 and cvc5 disagree on {o['name']}"))
            else:
                undecided.append((r['task'], f"{o['name']}: {o['status']}"))
    for task, o, rp_ in contradictions:
        # an obligation left open in this run (e.g. a loop invariant that is no longer preserved, status unknown) means the modular
        # proof of the clause is incomplete: the firing on the real code is then a witness of the violation, not an engine problem
        if violations or undecided:
            violations.append({'task': task, 'name': o['name'], 'kind': o['kind'], 'detail': rp_.get('detail'), 'witness': o.get('witness'),
                               'model': o.get('model'), 'replayed': True, 'path': o['path']})
        else:
            errors.append((task, f"clause {o['name']} is proved but fires on the real code: {rp_.get('detail')} (engine or assumption wrong)"))
    if n_obl == 0 and not bounded:
        errors.append(('-', 'zero obligations generated for this property'))
    # ---- output
    wall = time.time() - t0
    os.makedirs(os.path.join(VERIF, 'evidence'), exist_ok=True)
    os.makedirs(os.path.join(VERIF, 'replays'), exist_ok=True)
    lines = []
    code = 0
    seen = set()
    for k, f in known_hit:
        key = (k['obligation'], k['what'])
        if key in seen:
            continue
        seen.add(key)
        lines.append(f"KNOWN-FINDING: property={prop} {k['what']}")
    vi = 0
    uniq = {}
    for v in violations:
        k = (v['task'], v['name'])
        if k not in uniq or (v['replayed'] and not uniq[k]['replayed']):
            uniq[k] = v
    violations = list(uniq.values())
    for v in violations:
        vi += 1
        fn = os.path.join('replays', f'{prop}_{vi}.json')
        if a.repo != '/repo':
            fn = os.path.join('replays', f'{prop}_{vi}.scratch.json')
        with open(os.path.join(VERIF, fn), 'w') as f:
            json.dump({'property': prop, 'task': v['task'], 'obligation': v['name'], 'kind': v['kind'], 'detail': v.get('detail'), 'seed': seed, 'tier': a.tier,
                       'witness': v.get('witness'), 'solver_output': v.get('model'), 'input': v.get('input'), 'replayed': v['replayed'],
                       'path': v.get('path')}, f, indent=1, default=str)
        tail = '' if v['replayed'] else ' no-failing-input-found'
        lines.append(f"VIOLATION property={prop} replay={os.path.join(VERIF, fn)} obligation={v['task']}::{v['name']}{tail}")
        if v.get('detail'):
            lines.append(f"    {str(v['detail'])[:300]}")
        code = 1
    for t, e in errors:
        lines.append(f'CHECKER-ERROR {t}: {e[:1500]}')
    for t, u in undecided:
        lines.append(f'UNDECIDED {t}: {u[:300]}')
    if code == 0 and errors:
        code = 3
    elif code == 0 and undecided:
        code = 2
    lines.append(f'{prop} tier={a.tier} obligations={n_obl} discharged={n_proved} violations={len(violations)} known={len(seen)} undecided={len(undecided)} errors={len(errors)} wall={wall:.1f}s')
    print('\n'.join(lines))
    if not a.no_evidence and a.repo == '/repo':
        write_evidence(a, prop, recs, assumed, R, seed, wall, n_obl, n_proved, violations, undecided, errors, by_backend, samples, funcs, bounded, solver_s, known_hit)
    return code


def write_evidence(a, prop, recs, assumed, R, seed, wall, n_obl, n_proved, violations, undecided, errors, by_backend, samples, funcs, bounded, solver_s, known_hit):
    import contracts
    level = contracts.LEVELS.get(prop, 'proof')
    cov = {
        'obligations': n_obl, 'discharged': n_proved,
        'checker_cmd': f'./check {prop} --tier {a.tier}',
        'trusted_base': TRUSTED_BASE,
        'functions_under_contract': funcs,
        'by_backend': by_backend, 'solver_seconds': round(solver_s, 3),
        'samples': samples or [{'note': 'no proved obligation sample'}],
        'bounded_stand_ins': bounded,
        'assumed_contracts': [{'contract': c.id, 'note': c.note} for c in assumed],
        'inlined_helpers': sorted(R.inline_keys),
        'opaque_externals': sorted(R.opaque) + sorted(R.effects),
        'dropped_by_extraction': DROPPED + sorted({f"{f_['function']}: STATEMENT SLICE - lines {f_['lines'][0]}-{f_['lines'][1]} of {f_['function'].split('$')[0]} lifted mechanically into a function of the "
                                                   f"locals they read; every other statement of that function is dropped (not verified by this contract)" for f_ in funcs if '$' in str(f_.get('function', ''))}),
        'known_findings': [f"{k['obligation']}: {k['what']}" for k, _ in known_hit],
        'undecided': [f'{t}: {u}'[:300] for t, u in undecided],
        'explanation': contracts.EXPLAIN.get(prop, ''),
        'evaluations': n_obl + sum(b.get('cases') or 0 for b in bounded),
        'distinct_nontrivial': len({(r.get('task'), o['name']) for r in recs for o in r.get('obls', []) if prop in o.get('props', []) and o.get('backend') in ('z3', 'cvc5', 'ast', 'cpython')})
                               + sum(b.get('distinct') or 0 for b in bounded),
        'rule': 'one evaluation = one named proof obligation generated from the current source (execution path x clause), plus the cases of the bounded stand-ins (listed separately, '
                'never counted as discharged). distinct_nontrivial counts DISTINCT (contract, clause) pairs whose obligation needed a solver or an AST decision on at least one path '
                '(obligations that folded to true by term simplification while the path was executed are trivial; the same clause on several paths counts once), plus the distinct inputs of the bounded families',
    }
    ev = {'property_id': prop, 'tier': a.tier, 'seed': seed, 'level': level, 'coverage': cov,
          'assumptions': TRUSTED_BASE + [f'assumed contract: {c.id} - {c.note}' for c in assumed],
          'wall_s': round(wall, 2), 'violations': len(violations)}
    with open(os.path.join(VERIF, 'evidence', f'{prop}.json'), 'w') as f:
        json.dump(ev, f, indent=1, default=str)


def do_replay(a, prop):
    from pyvc.engine import Engine
    from pyvc import replay as rp
    d = json.load(open(a.replay))
    if d.get('kind') == 'bounded' and d.get('input'):
        from contracts import b_replay
        return b_replay.replay(prop, d, a.repo)
    if not d.get('witness'):
        print(f"replay file names obligation {d.get('task')}::{d.get('obligation')}; no executable witness (no-failing-input-found)")
        print('solver output:', (d.get('solver_output') or d.get('detail') or '')[:2000])
        return 1
    R = load_registry()
    eng = Engine(a.repo, R)
    c = [x for x in R.all() if x.id == d['task']][0]
    clause = d['obligation'].split(':', 1)[1] if ':' in d['obligation'] else d['obligation']
    kind = d['kind'] if d['kind'] in ('post', 'raise', 'frame') else 'raise'
    res = rp.run_witness(eng, c, clause, d['witness'], a.repo, kind=kind)
    print(json.dumps(res, indent=1, default=str))
    if res['verdict'] == 'violates':
        print(f'VIOLATION property={prop} replay={os.path.abspath(a.replay)}')
        return 1
    return 0


if __name__ == '__main__':
    sys.exit(main())
