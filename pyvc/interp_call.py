"""Calls: contracts at call sites, inlining, built-ins, object construction (mixin of Interp)."""
import ast
import z3
from . import sym
from .sym import Val, MapT, ListT, Heap
from .values import *
from .core import *
from .interp import Frame, EXC_BASES, exc_is
from .contract import SpecCtx

STRUCT_NODE = ['_children', '$cls']
STRUCT_DICT = ['$mlen', '$mkeyat', '$mpos', '$mval']
TRANSPARENT_DECORATORS = {'staticmethod', 'classmethod', 'property', 'staticproperty', 'namespace:ayns',
                          'contextlib.contextmanager', 'errors.api_entry', 'api_entry', 'functools.wraps()'}
RETHROW = {'rethrow_as_preprocess_error': 'PreprocessError', 'rethrow_as_premerge_error': 'PremergeError',
           'rethrow_as_merge_error': 'MergeError', 'rethrow_as_eval_error': 'EvalError',
           'rethrow_as_parsing_error': 'ParsingError'}


class CallMixin:

    # ------------------------------------------------------------------ call expressions
    def eval_call(self, n, fr, as_cm=False):
        f = n.func
        if isinstance(f, ast.Name) and fr.lookup(f.id)[0] is None:
            sp = getattr(self, 'sp_' + f.id, None)
            if sp is not None and not self.eng.shadows_builtin(fr, f.id):
                return sp(n, fr)
        fv = self.ev(f, fr)
        args, kwargs = self.eval_args(n, fr)
        return self.call_value(fv, args, kwargs, n, fr, as_cm=as_cm)

    def eval_args(self, n, fr):
        args, kwargs = [], {}
        for a in n.args:
            if isinstance(a, ast.Starred):
                v = self.ev(a.value, fr)
                spec = self.iter_spec(v, a, fr)
                if spec[0] == 'concrete':
                    args.extend(spec[1])
                else:
                    args.append(OpaqueV('starargs', v))       # *args of symbolic length: only acceptable for opaque callees
            else:
                args.append(self.ev(a, fr))
        for k in n.keywords:
            if k.arg is None:
                v = self.ev(k.value, fr)
                try:
                    for kt, vt in self.concrete_items(v, k, fr):
                        kwargs[sym.py_of_val(kt)] = self.unbox(vt)
                except Unsupported:
                    kwargs['**' + str(len(kwargs))] = OpaqueV('starkwargs', v)
            else:
                kwargs[k.arg] = self.ev(k.value, fr)
        return args, kwargs

    def call_value(self, fv, args, kwargs, n, fr, as_cm=False):
        if isinstance(fv, FuncV):
            a = list(args)
            if fv.bound is not None:
                a = [fv.bound] + a
            return self.call_func(fv.fi, a, kwargs, n, fr, closure=fv.closure, as_cm=as_cm)
        if isinstance(fv, LambdaV):
            return self.call_lambda(fv, args, kwargs, n, fr)
        if isinstance(fv, ClassV):
            return self.construct(fv, args, kwargs, n, fr)
        if isinstance(fv, BuiltinV):
            a = list(args)
            if fv.bound is not None:
                a = [fv.bound] + a
            return self.call_builtin(fv.name, a, kwargs, n, fr, as_cm=as_cm)
        if isinstance(fv, OpaqueV) and fv.tag == 'callable':
            return self.eng.call_opaque(self, fv, args, kwargs, n, fr)
        if isinstance(fv, SV):
            return self.eng.call_symbolic(self, fv, args, kwargs, n, fr)
        self.unsupported(n, f'call of {fv!r}')

    def call_lambda(self, lv, args, kwargs, n, fr):
        f2 = Frame(lv.fi, closure=lv.closure, defcls=lv.closure.defcls if lv.closure else None)
        f2.fi = lv.fi
        f2.loop_ord = {}
        self.bind(lv.node.args, args, kwargs, f2, n)
        return self.ev(lv.node.body, f2)

    # ------------------------------------------------------------------ binding
    def bind(self, a, args, kwargs, f2, n, fi=None):
        params = [p.arg for p in a.posonlyargs + a.args]
        defaults = [None] * (len(params) - len(a.defaults)) + list(a.defaults)
        kwargs = dict(kwargs)
        for i, p in enumerate(params):
            if i < len(args):
                f2.loc[p] = args[i]
            elif p in kwargs:
                f2.loc[p] = kwargs.pop(p)
            elif defaults[i] is not None:
                f2.loc[p] = self.ev_default(defaults[i], f2)
            else:
                self.unsupported(n, f'missing argument {p!r} in call of {fi.key if fi else "lambda"}')
        extra = args[len(params):]
        if a.vararg:
            f2.loc[a.vararg.arg] = TupleV(extra)
        elif extra:
            self.unsupported(n, f'too many positional arguments for {fi.key if fi else "lambda"}')
        for p, d in zip(a.kwonlyargs, a.kw_defaults):
            if p.arg in kwargs:
                f2.loc[p.arg] = kwargs.pop(p.arg)
            elif d is not None:
                f2.loc[p.arg] = self.ev_default(d, f2)
            else:
                self.unsupported(n, f'missing keyword-only argument {p.arg!r}')
        if a.kwarg:
            r = self.run.alloc('dict')
            m = MapT.empty()
            for k, v in kwargs.items():
                m = self.map_set_simpl(m, sym.mk_str(k), self.store_val(v, n))
            self.heap.put_m(r, m)
            f2.loc[a.kwarg.arg] = SV(sym.mk_ref(r), hint=frozenset(['dict']))
        elif kwargs:
            self.unsupported(n, f'unexpected keyword arguments {list(kwargs)} for {fi.key if fi else "lambda"}')

    def ev_default(self, d, f2):
        return self.ev(d, Frame(f2.fi, closure=None, defcls=f2.defcls))

    # ------------------------------------------------------------------ package functions
    def call_func(self, fi, args, kwargs, n, fr, closure=None, as_cm=False, bound_cls=None, force_inline=False):
        key = fi.key
        if as_cm and fi.is_generator():
            f2 = Frame(fi, closure=closure, defcls=fi.cls)
            self.bind(fi.node.args, args, kwargs, f2, n, fi)
            return ('cm', fi, f2)
        w = self.contract.opts.get('watch', {}).get(key)
        if w is not None:
            self.run.event(w, lineno=getattr(n, 'lineno', None), args=list(args), kwargs=dict(kwargs), heap=self.heap.snapshot(), index=len(self.run.events))
        cs = [c for c in self.eng.registry.get(key) if not c.opts.get('verify_only')]
        use_contract = bool(cs) and key not in self.contract.inline and not force_inline
        if key == self.top_fi.key and self.depth == 0 and fr is None:
            use_contract = False
        if use_contract:
            if any(isinstance(a, OpaqueV) and a.tag == 'starargs' for a in args):
                raise Unsupported(f'{self.eng.cur_key}:{getattr(n, "lineno", "?")}: star-expansion of a sequence of symbolic length in a call of {key}, '
                                  f'which is under contract: the arguments cannot be matched against the contract parameters')
            return self.apply_contract(self.pick_contract(cs, fi, args, kwargs, n, fr), fi, args, kwargs, n, fr)
        if not (force_inline or fi.kind == 'nested' or key in self.eng.registry.inline_keys or key in self.contract.inline
                or (fr is None) or _returns_constant(fi)):
            raise Unsupported(f'{self.eng.cur_key}:{getattr(n, "lineno", "?")}: no contract for callee {key} (and it is not marked inline)')
        return self.inline_call(fi, args, kwargs, n, fr, closure)

    def inline_call(self, fi, args, kwargs, n, fr, closure=None):
        if self.depth >= self.MAX_DEPTH:
            raise Unsupported(f'inline depth exceeded at {fi.key}')
        for d in fi.decorators:
            if d not in TRANSPARENT_DECORATORS and d not in RETHROW:
                self.unsupported(n, f'decorator {d} on {fi.key}')
        f2 = Frame(fi, closure=closure, defcls=fi.cls)
        self.bind(fi.node.args, args, kwargs, f2, n, fi)
        if fi.is_generator():
            if 'contextlib.contextmanager' in fi.decorators:
                self.unsupported(n, 'context manager called outside with')
            # eager generator: collect the yielded values into a ghost list
            r = self.run.alloc('list')
            self.heap.put_l(r, ListT.empty())
            f2.yields = r
        self.depth += 1
        try:
            ret = NONE
            try:
                rt = [d for d in fi.decorators if d in RETHROW]
                if rt:
                    self.exec_rethrow(RETHROW[rt[0]], fi, f2, n)
                else:
                    self.exec_block(fi.node.body, f2)
            except ReturnEx as r_:
                ret = r_.value
            if fi.is_generator():
                return IterV('list', self.heap.l(f2.yields))
            return ret
        finally:
            self.depth -= 1

    def exec_rethrow(self, errcls, fi, f2, n):
        """`@rethrow_as_*_error`: run the body inside the real errors.rethrow_point(error_type, self, path, other)"""
        rp = self.repo.func('awesomeyaml/errors.py::rethrow_point')
        params = [p.arg for p in fi.node.args.args]
        selfv = f2.loc[params[0]]
        pathv = f2.loc[params[1]] if len(params) > 1 else NONE
        other = f2.loc[params[2]] if len(params) > 2 else NONE
        if isinstance(other, SV) and errcls != 'ParsingError':
            isn = sym.simp(self.isinstance_term(other, 'ConfigNode'))
            if not z3.is_true(isn):
                if not self.run.decide(isn, 'rethrow-other-is-node'):
                    other = NONE
        elif not isinstance(other, SV):
            other = NONE
        cfr = Frame(rp, defcls=None)
        self.bind(rp.node.args, [ClassV(errcls), selfv, pathv, other], {}, cfr, n, rp)
        pending = {}

        def on_yield(v):
            try:
                self.exec_block(fi.node.body, f2)
            except RaiseEx:
                raise
            except PathEnd:
                raise
            except Stop as s:
                pending['stop'] = s
        cfr.on_yield = on_yield
        try:
            self.exec_block(rp.node.body, cfr)
        except ReturnEx:
            pass
        if 'stop' in pending:
            raise pending['stop']

    # ------------------------------------------------------------------ contracts at call sites
    def pick_contract(self, cs, fi, args, kwargs, n, fr):
        want = self.contract.opts.get('use', {}).get(fi.key)
        if want is not None:
            for c in cs:
                if c.name == want:
                    return c
            raise Unsupported(f'contract {want!r} of {fi.key} requested by {self.contract.id} does not exist')
        for c in cs:
            if c.opts.get('callee', True):
                return c
        return cs[0]

    def spec_ctx(self, post=None, res=None, exc=None):
        return SpecCtx(self.eng, self.spec_args, self.pre_heap, post if post is not None else self.heap, res, exc,
                       extra=getattr(self, 'spec_extra', None))

    def apply_contract(self, c, fi, args, kwargs, n, fr):
        run = self.run
        ln = getattr(n, 'lineno', None)
        f2 = Frame(fi, defcls=fi.cls)
        self.bind(fi.node.args, args, kwargs, f2, n, fi)
        a = dict(f2.loc)
        pre = self.heap.snapshot()
        sc = SpecCtx(self.eng, a, pre, pre)
        sc.interp = self
        sc.nalloc = run.nalloc
        tag = f'{fi.qualname}@{ln}'
        # the callee was verified for arguments of the declared kinds only: they are obligations here
        for p in c.params:
            v = a.get(p.name)
            if v is None:
                continue
            if p.kind == 'val' and isinstance(v, SV):
                t = v.t
                cons = {'bool': sym.is_bool(t), 'int': sym.is_int(t), 'str': sym.is_str(t),
                        'optbool': z3.Or(sym.is_none(t), sym.is_bool(t)), 'optint': z3.Or(sym.is_none(t), sym.is_int(t)),
                        'optstr': z3.Or(sym.is_none(t), sym.is_str(t)),
                        'prim': z3.Or(sym.is_none(t), sym.is_bool(t), sym.is_int(t), sym.is_str(t)),
                        'key': z3.Or(sym.is_int(t), sym.is_str(t)), 'ref': sym.is_ref(t)}.get(p.kw['vkind'])
                if cons is not None:
                    run.oblige(f'call:{tag}.kind-of-{p.name}', cons, kind='pre', lineno=ln)
            elif p.kind == 'node' and isinstance(v, SV):
                cls = p.kw['cls']
                if isinstance(cls, (list, tuple)):
                    ok = z3.Or([self.heap.cls(sym.r_of(v.t)) == self.eng.class_id(x) for x in cls])
                elif p.kw.get('exact'):
                    ok = self.heap.cls(sym.r_of(v.t)) == self.eng.class_id(cls)
                else:
                    ok = self.eng.isinstance_term(self.heap.cls(sym.r_of(v.t)), cls)
                run.oblige(f'call:{tag}.class-of-{p.name}', z3.And(sym.is_ref(v.t), ok), kind='pre', lineno=ln)
        if c.requires is not None:
            req = c.requires(sc)
            for item in _named3(req, 'pre'):
                nm, g, meta = item
                if (meta or {}).get('ghost_def'):
                    # definitional fact about ghost functions (a conservative extension over a finite tree): assumed, not an obligation
                    run.assume(g)
                    continue
                static = (meta or {}).get('static')
                if static and getattr(self, 'entry_static', None) and not all(self.heap.arr(f).eq(self.pre_heap.arr(f)) for f in STRUCT_NODE + STRUCT_DICT):
                    # clause about the (static) tree structure: proved over the ENTRY structure (where the caller's own
                    # clause lives), plus a frame obligation: the structure fields are unchanged inside the clause's scope
                    mix = self.heap.snapshot()
                    for f in STRUCT_NODE + STRUCT_DICT:
                        mix.a[f] = self.pre_heap.arr(f)
                    run.oblige(f'call:{tag}.{nm}', meta['fn'](mix), kind='pre', lineno=ln)
                    r = run.fresh('sr', sym.I)
                    sc_ = meta['scope'](r)
                    ent_ch = sym.r_of(z3.Select(self.pre_heap.arr('_children'), r))
                    for f in STRUCT_NODE:
                        now, ent = self.heap.arr(f), self.pre_heap.arr(f)
                        if not now.eq(ent):
                            run.oblige(f'call:{tag}.{nm}.unchanged:{f}', z3.Implies(sc_, z3.Select(now, r) == z3.Select(ent, r)), kind='pre', lineno=ln)
                    scd = meta['scope_dict'](r) if meta.get('scope_dict') else sc_
                    for f in STRUCT_DICT:
                        now, ent = self.heap.arr(f), self.pre_heap.arr(f)
                        if not now.eq(ent):
                            run.oblige(f'call:{tag}.{nm}.unchanged:{f}', z3.Implies(scd, z3.Select(now, ent_ch) == z3.Select(ent, ent_ch)), kind='pre', lineno=ln)
                    continue
                run.oblige(f'call:{tag}.{nm}', g, kind='pre', lineno=ln)
        # exceptional outcomes
        outcomes = [None]
        for rs in c.raises:
            w = rs.when(sc) if rs.when is not None else None
            if w is not None:
                ws = sym.simp(w) if not z3.is_quantifier(w) else w
                if z3.is_false(ws):
                    continue
            outcomes.append((rs, w))
        feas = []
        for o in outcomes:
            if o is None:
                feas.append(o)
            else:
                rs, w = o
                if w is None or run.feasible(w):
                    feas.append(o)
        k = run.choose(len(feas), f'outcome:{tag}')
        o = feas[k]
        if o is not None:
            rs, w = o
            if w is not None:
                run.assume(w)
            if c.opts.get('raise_effects'):
                c.opts['raise_effects'](sc, self)
            flds = {}
            if rs.cls in self.repo.classes or rs.cls in ('Error',):
                flds = {'node': NONE, 'path': NONE, 'extra_node': NONE, 'error_msg': OpaqueV('str'), 'note': NONE}
            raise RaiseEx(ExcV(rs.cls, fields=flds, lineno=ln))
        for rs in c.raises:
            if rs.exact and rs.when is not None:
                run.assume(z3.Not(rs.when(sc)))
        # effects performed by the callee (dominance through callees)
        for eff in c.effects:
            run.event(eff[0], via=fi.key, lineno=ln, args=list(args), kwargs=dict(kwargs), heap=self.heap.snapshot(), index=len(run.events))
        # frame + havoc
        if c.modifies is not None:
            mods_ = list(c.modifies(sc))
            mods_ += [('$lpos', refs) for field, refs in mods_ if field == '$litem']      # ghost bookkeeping goes with the items
            for field, refs in mods_:
                hv = run.fresh('cm_' + field.replace('$', 'S'), sym.heap_sort(field))
                if refs == 'all':
                    self.heap.a[field] = hv
                elif callable(refs):
                    r = z3.Int('!fr')
                    old = self.heap.arr(field)
                    self.heap.a[field] = z3.Lambda([r], z3.If(refs(r), z3.Select(hv, r), z3.Select(old, r)))
                else:
                    arr = self.heap.arr(field)
                    for r in refs:
                        arr = z3.Store(arr, r, z3.Select(hv, r))
                    self.heap.a[field] = arr
        # result
        floor_before = getattr(run, 'floor', z3.IntVal(-1000000))
        res = self.make_result(c, sc, fi, n)
        sc2 = SpecCtx(self.eng, a, pre, self.heap, res)
        sc2.interp = self
        sc2.nalloc = run.nalloc
        sc2.floor = floor_before
        sc2.x = sc.x
        for nm, fn in c.ensures:
            g = fn(sc2)
            for nm2, g2 in _named(g, nm):
                run.assume(g2)
        if c.opts.get('post_effect'):
            c.opts['post_effect'](sc2, self)
        return res

    def make_result(self, c, sc, fi, n):
        rs = c.result
        if rs is None:
            return NONE
        if callable(rs):
            return rs(sc, self)
        return self.eng.fresh_param(self, rs, self.run, result=True)

    # ------------------------------------------------------------------ object construction
    def construct(self, cv, args, kwargs, n, fr):
        name = cv.name
        if name in EXC_BASES or self.eng.is_exception_class(name):
            flds = {}
            if self.eng.is_awesomeyaml_error(name):
                names = ['error_msg', 'node', 'path', 'extra_node', 'note']
                for i, a in enumerate(args):
                    flds[names[i]] = a
                for k, v in kwargs.items():
                    flds[k] = v
                for k in names:
                    flds.setdefault(k, NONE)
            return ExcV(name, tuple(args), flds, lineno=getattr(n, 'lineno', None))
        if name == 'persistent_id':
            # int subclass carrying id(obj) (and a reference keeping obj alive): the identity
            return SV(sym.mk_int(sym.r_of(self.sv(args[0], n).t)))
        if name == 'NodePath':
            if not args:
                return PathV(z3.Empty(sym.PathSort))
            return self.as_path(args[0], n)
        if name in self.eng.node_classes or name == 'ConfigNode':
            meta = self.repo.funcs.get('awesomeyaml/nodes/node.py::ConfigNodeMeta.__call__')
            if name != 'ConfigNode':
                # direct construction of a node of a given class: by the (assumed) construction contract
                cs = [c for c in self.eng.registry.get(meta.key) if c.name == 'construct']
                if not cs:
                    self.unsupported(n, f'construction of {name} needs the construct contract')
                return self.apply_contract(cs[0], meta, [cv] + list(args), kwargs, n, fr)
            return self.call_func(meta, [cv] + list(args), kwargs, n, fr)
        if name in self.repo.classes:
            return self.new_object(name, args, kwargs, n, fr)
        return self.eng.construct_external(self, cv, args, kwargs, n, fr)

    def new_object(self, name, args, kwargs, n, fr):
        r = self.run.alloc(name)
        obj = SV(sym.mk_ref(r), hint=frozenset([name]))
        if self.repo.is_subclass(name, 'dict'):
            self.heap.put_m(r, MapT.empty())
        if self.repo.is_subclass(name, 'list'):
            self.heap.put_l(r, ListT.empty())
        init = self.repo.resolve_method(name, '__init__')
        if init is not None and not isinstance(init, tuple):
            self.call_func(init, [obj] + list(args), kwargs, n, fr)
        elif isinstance(init, tuple) and init[0] == 'builtin':
            self.call_builtin(f'{init[1]}.__init__', [obj] + list(args), kwargs, n, fr)
        return obj

    # ------------------------------------------------------------------ special forms
    def _class_names(self, e, fr):
        if isinstance(e, ast.Tuple):
            out = []
            for x in e.elts:
                out.extend(self._class_names(x, fr))
            return out
        v = self.ev(e, fr)
        if isinstance(v, ClassV):
            return [v.name]
        if isinstance(v, BuiltinV):
            return [v.name]
        if isinstance(v, TupleV):
            return [x.name for x in v.items]
        if isinstance(v, OpaqueV) and v.tag == 'extclass':
            return [v.payload]
        self.unsupported(e, f'class expression {ast.unparse(e)}')

    def sp_isinstance(self, n, fr):
        v = self.ev(n.args[0], fr)
        if not isinstance(n.args[1], ast.Tuple) and isinstance(v, SV):
            b = self.ev(n.args[1], fr)
            if isinstance(b, OpaqueV) and b.tag == 'typeof':
                # isinstance(x, type(y)) over the closed class table
                return SV(sym.mk_bool(z3.And(sym.is_ref(v.t), self.eng.subclass_term(self.heap.cls(sym.r_of(v.t)), self.heap.cls(sym.r_of(b.payload.t))))))
        names = self._class_names(n.args[1], fr)
        return SV(sym.mk_bool(sym.simp(z3.Or([self.isinstance_of(v, nm, n) for nm in names]))))

    def isinstance_of(self, v, nm, n):
        if isinstance(v, PathV):
            return z3.BoolVal(nm in ('NodePath', 'list', 'cabc.Sequence', 'Sequence', 'cabc.MutableSequence'))
        if isinstance(v, TupleV):
            return z3.BoolVal(nm in ('tuple', 'cabc.Sequence', 'Sequence'))
        if isinstance(v, ExcV):
            return z3.BoolVal(exc_is(v.cls, nm))
        if isinstance(v, (FuncV, LambdaV, ClassV, ModV, BuiltinV)):
            return z3.BoolVal(nm == 'type' and isinstance(v, ClassV))
        if isinstance(v, OpaqueV):
            return self.eng.opaque_isinstance(self, v, nm, n)
        v = self.sv(v, n)
        return self.isinstance_term(v, self.eng.canon_class(nm))

    def sp_issubclass(self, n, fr):
        a = self.ev(n.args[0], fr)
        if isinstance(a, OpaqueV) and a.tag == 'typeof' and len(n.args) == 2 and not isinstance(n.args[1], ast.Tuple):
            b = self.ev(n.args[1], fr)
            if isinstance(b, OpaqueV) and b.tag == 'typeof':
                # issubclass(type(x), type(y)) over the closed class table
                return SV(sym.mk_bool(self.eng.subclass_term(self.heap.cls(sym.r_of(a.payload.t)), self.heap.cls(sym.r_of(b.payload.t)))))
        names = self._class_names(n.args[1], fr)
        if isinstance(a, ClassV):
            return sv_const(any(self.repo.is_subclass(a.name, self.eng.canon_class(nm)) for nm in names))
        if isinstance(a, OpaqueV) and a.tag == 'typeof':
            ca = self.heap.cls(sym.r_of(a.payload.t))
            if len(n.args) == 2 and not isinstance(n.args[1], ast.Tuple):
                b = self.ev(n.args[1], fr)
                if isinstance(b, OpaqueV) and b.tag == 'typeof':
                    cb = self.heap.cls(sym.r_of(b.payload.t))
                    return SV(sym.mk_bool(self.eng.subclass_term(ca, cb)))
            return SV(sym.mk_bool(z3.Or([self.eng.isinstance_term(ca, self.eng.canon_class(nm)) for nm in names])))
        self.unsupported(n, 'issubclass form')

    def sp_hasattr(self, n, fr):
        v = self.ev(n.args[0], fr)
        name = sym.py_of_val(self.sv(self.ev(n.args[1], fr), n).t)
        if isinstance(v, SlotV):
            return SV(sym.mk_bool(z3.Not(sym.is_undef(self.heap.get('$slot:' + v.name, z3.IntVal(0))))))
        if isinstance(v, SV):
            if name in self.eng.instance_fields:
                return SV(sym.mk_bool(z3.And(sym.is_ref(v.t), z3.Not(sym.is_undef(self.heap.get(name, sym.r_of(v.t)))))))
            # method / class attribute: decided by the class table
            oks = [c for c in self.classes_of(v) if c in self.repo.classes and self.repo.resolve_method(c, name) is not None]
            r = sym.r_of(v.t)
            return SV(sym.mk_bool(z3.And(sym.is_ref(v.t), z3.Or([self.heap.cls(r) == self.eng.class_id(c) for c in oks] or [z3.BoolVal(False)]))))
        if isinstance(v, ExcV):
            return sv_const(name in v.fields)
        self.unsupported(n, f'hasattr on {v!r}')

    def sp_getattr(self, n, fr):
        v = self.ev(n.args[0], fr)
        nm = self.sv(self.ev(n.args[1], fr), n)
        name = sym.py_of_val(nm.t)
        if len(n.args) > 2:
            d = self.ev(n.args[2], fr)
            return self.getattr_(v, name, fr, n, default=d, has_default=True)
        return self.getattr_(v, name, fr, n)

    def sp_setattr(self, n, fr):
        v = self.ev(n.args[0], fr)
        name = sym.py_of_val(self.sv(self.ev(n.args[1], fr), n).t)
        self.setattr_(v, name, self.ev(n.args[2], fr), fr, n)
        return NONE

    def sp_super(self, n, fr):
        f = fr
        while f is not None and (f.fi is None or f.fi.kind == 'nested' or isinstance(f.fi.node, ast.Lambda)):
            f = f.closure
        if f is None or f.defcls is None:
            self.unsupported(n, 'super() outside a method')
        first = f.fi.node.args.args[0].arg
        return SuperV(f.loc[first], f.defcls.name)

    def sp_len(self, n, fr):
        v = self.ev(n.args[0], fr)
        return SV(sym.mk_int(self.length_of(v, n, fr)))

    def length_of(self, v, n, fr):
        if isinstance(v, TupleV):
            return z3.IntVal(len(v.items))
        if isinstance(v, PathV):
            return z3.Length(v.s)
        if isinstance(v, OpaqueV):
            return self.eng.opaque_len(self, v, n)
        v = self.sv(v, n)
        if z3.is_true(sym.simp(sym.is_str(v.t))):
            return z3.Length(sym.s_of(v.t))
        r = sym.r_of(v.t)
        kinds = {}
        for c in self.classes_of(v):
            kinds.setdefault(self.eng.len_rule(c), []).append(c)
        k = self.narrow(v, kinds, 'len')
        if k == 'llen':
            return self.heap.get('$llen', r)
        if k == 'mlen':
            return self.heap.get('$mlen', r)
        self.unsupported(n, f'len() of {k}')

    def sp_bool(self, n, fr):
        if not n.args:
            return sv_const(False)
        return SV(sym.mk_bool(sym.simp(self.truth(self.ev(n.args[0], fr), fr, n))))

    def sp_id(self, n, fr):
        v = self.sv(self.ev(n.args[0], fr), n)
        return SV(sym.mk_int(sym.r_of(v.t)))       # identity = object identity (refs are unique)

    def sp_persistent_id(self, n, fr):
        return self.sp_id(n, fr)

    def sp_type(self, n, fr):
        if len(n.args) != 1:
            self.unsupported(n, 'type() with 3 arguments')
        v = self.ev(n.args[0], fr)
        if isinstance(v, SV):
            t = sym.simp(v.t)
            if z3.is_true(sym.simp(sym.is_none(t))):
                return ClassV('NoneType')
            return OpaqueV('typeof', v)
        if isinstance(v, ExcV):
            return ClassV(v.cls)
        self.unsupported(n, f'type() of {v!r}')

    def sp_str(self, n, fr):
        if not n.args:
            return sv_const('')
        v = self.ev(n.args[0], fr)
        if isinstance(v, SV):
            t = sym.simp(v.t)
            if self.known(sym.is_str(t)):
                return v
            if self.known(sym.is_int(t)):
                return SV(Val.str(z3.IntToStr(sym.i_of(t))))
            if self.known(sym.is_ref(t)):
                return self.eng.str_of_obj(self, v, n, fr)
        if isinstance(v, PathV):
            return SV(Val.str(self.eng.path_str(v.s)))
        return SV(Val.str(self.run.fresh('str', z3.StringSort())))

    def known(self, cond):
        """cond holds on this path (syntactically, or implied by the path condition)"""
        c = sym.simp(cond)
        if z3.is_true(c):
            return True
        if z3.is_false(c):
            return False
        return not self.run.feasible(z3.Not(c))

    def sp_repr(self, n, fr):
        self.ev(n.args[0], fr)
        return SV(Val.str(self.run.fresh('repr', z3.StringSort())))

    def sp_int(self, n, fr):
        v = self.sv(self.ev(n.args[0], fr), n)
        t = sym.simp(v.t)
        if z3.is_true(sym.simp(sym.is_str(t))):
            return SV(sym.mk_int(z3.StrToInt(sym.s_of(t))))
        return SV(sym.mk_int(self.as_int(v)))

    def sp_abs(self, n, fr):
        i = self.as_int(self.sv(self.ev(n.args[0], fr), n))
        return SV(sym.mk_int(sym.simp(z3.If(i < 0, -i, i))))

    def sp_min(self, n, fr):
        vs = [self.sv(self.ev(a, fr), n) for a in n.args]
        r = vs[0].t
        for v in vs[1:]:
            r = z3.If(self.as_int(v) < self.as_int(SV(r)), v.t, r)      # the first minimal operand is returned as is
        return SV(sym.simp(r))

    def sp_max(self, n, fr):
        vs = [self.sv(self.ev(a, fr), n) for a in n.args]
        r = vs[0].t
        for v in vs[1:]:
            r = z3.If(self.as_int(v) > self.as_int(SV(r)), v.t, r)
        return SV(sym.simp(r))

    def sp_range(self, n, fr):
        xs = [self.as_int(self.sv(self.ev(a, fr), n)) for a in n.args]
        if len(xs) == 1:
            return IterV('range', z3.IntVal(0), xs[0])
        if len(xs) == 2:
            return IterV('range', xs[0], xs[1])
        self.unsupported(n, 'range with step')

    def sp_enumerate(self, n, fr):
        return IterV('enumerate', self.ev(n.args[0], fr), 0)

    def sp_reversed(self, n, fr):
        return IterV('reversed', self.ev(n.args[0], fr))

    def sp_zip(self, n, fr):
        return IterV('zip', [self.ev(a, fr) for a in n.args])

    def sp_iter(self, n, fr):
        return self.ev(n.args[0], fr)

    def sp_list(self, n, fr):
        r = self.run.alloc('list')
        if not n.args:
            self.heap.put_l(r, ListT.empty())
            return SV(sym.mk_ref(r), hint=frozenset(['list']))
        spec = self.iter_spec(self.ev(n.args[0], fr), n, fr)
        if spec[0] == 'concrete':
            l = ListT.empty()
            for x in spec[1]:
                l = l.append(self.store_val(x, n))
            self.heap.put_l(r, ListT(sym.simp(l.len), l.item))
        else:
            _, ln, elem, snap = spec
            i = z3.Int('!li')
            e = elem(i)
            if not isinstance(e, SV):
                self.unsupported(n, 'list() of symbolic sequence of non-values')
            self.heap.put_l(r, ListT(ln, z3.Lambda([i], e.t)))
        return SV(sym.mk_ref(r), hint=frozenset(['list']))

    def sp_dict(self, n, fr):
        r = self.run.alloc('dict')
        m = MapT.empty()
        if n.args:
            src = self.ev(n.args[0], fr)
            if isinstance(src, SV):
                sr = sym.r_of(src.t)
                m = self.heap.m(sr)
            else:
                for x in self.concrete_iter(src, n, fr):
                    k, v = self.unpack(x, 2, n, fr)
                    m = self.map_set_simpl(m, self.sv(k, n).t, self.store_val(v, n))
        for k in n.keywords:
            m = self.map_set_simpl(m, sym.mk_str(k.arg), self.store_val(self.ev(k.value, fr), n))
        self.heap.put_m(r, m)
        return SV(sym.mk_ref(r), hint=frozenset(['dict']))

    def sp_set(self, n, fr):
        r = self.run.alloc('pset')
        if n.args:
            self.unsupported(n, 'set(iterable)')
        self.heap.put('$pset', r, z3.K(sym.PathSort, z3.BoolVal(False)))
        self.heap.put('$set', r, z3.K(Val, z3.BoolVal(False)))
        return SV(sym.mk_ref(r), hint=frozenset(['pset']))

    def sp_any(self, n, fr):
        return self._anyall(n, fr, True)

    def sp_all(self, n, fr):
        return self._anyall(n, fr, False)

    def _anyall(self, n, fr, is_any):
        a = n.args[0]
        if not isinstance(a, ast.GeneratorExp) or len(a.generators) != 1 or a.generators[0].ifs:
            self.unsupported(n, 'any/all over this argument')
        g = a.generators[0]
        spec = self.iter_spec(self.ev(g.iter, fr), n, fr)
        from .interp_expr import Frame_child
        sub = Frame_child(fr)
        if spec[0] == 'concrete':
            terms = []
            for x in spec[1]:
                self.assign(g.target, x, sub)
                terms.append(self.truth(self.ev(a.elt, sub), sub, n))
            res = z3.Or(terms or [z3.BoolVal(False)]) if is_any else z3.And(terms or [z3.BoolVal(True)])
            return SV(sym.mk_bool(sym.simp(res)))
        _, ln, elem, snap = spec
        i = self.run.fresh('qi', sym.I)
        self.assign(g.target, elem(i), sub)
        # the element expression must be branch-free for a quantified summary
        body = self.truth(self.ev(a.elt, sub), sub, n)
        if is_any:
            res = z3.Exists([i], z3.And(0 <= i, i < ln, body))
        else:
            res = z3.ForAll([i], z3.Implies(z3.And(0 <= i, i < ln), body))
        return SV(sym.mk_bool(res))

    def sp_print(self, n, fr):
        return NONE

    def sp_dir(self, n, fr):
        return OpaqueV('dir', self.ev(n.args[0], fr))

    # ------------------------------------------------------------------ built-in methods
    def call_builtin(self, name, a, kw, n, fr, as_cm=False):
        h = self.heap
        if name in ('list.append',):
            r = sym.r_of(self.sv(a[0], n).t)
            l = h.l(r)
            tv = self.store_val(a[1], n)
            # ghost: the position at which a value was (last) appended - lets an invariant say "k is in the list" without an existential
            self.heap.put('$lpos', r, z3.Store(self.heap.get('$lpos', r), tv, l.len))
            h.put_l(r, ListT(sym.simp(l.len + 1), z3.Store(l.item, l.len, tv)))
            return NONE
        if name == 'list.__init__':
            r = sym.r_of(self.sv(a[0], n).t)
            if len(a) == 1:
                h.put_l(r, ListT.empty())
                return NONE
            spec = self.iter_spec(a[1], n, fr)
            if spec[0] == 'concrete':
                l = ListT.empty()
                for x in spec[1]:
                    l = l.append(self.store_val(x, n))
                h.put_l(r, ListT(sym.simp(l.len), l.item))
            else:
                _, ln, elem, snap = spec
                i = z3.Int('!li')
                h.put_l(r, ListT(ln, z3.Lambda([i], self.sv(elem(i), n).t)))
            return NONE
        if name == 'list.insert':
            r = sym.r_of(self.sv(a[0], n).t)
            l = h.l(r)
            i = self.as_int(self.sv(a[1], n))
            i = z3.If(i < 0, z3.If(l.len + i < 0, 0, l.len + i), z3.If(i > l.len, l.len, i))
            h.put_l(r, l.insert(sym.simp(i), self.store_val(a[2], n)))
            return NONE
        if name == 'list.clear':
            h.put_l(sym.r_of(self.sv(a[0], n).t), ListT.empty())
            return NONE
        if name == 'list.__setitem__':
            self.builtin_setitem('list', self.sv(a[0], n), a[1], a[2], fr, n)
            return NONE
        if name == 'list.__getitem__':
            r = sym.r_of(self.sv(a[0], n).t)
            l = h.l(r)
            i = self.as_int(self.sv(a[1], n))
            self.maybe_raise(z3.And(-l.len <= i, i < l.len), 'IndexError', fr, n, 'list.__getitem__')
            return self.unbox(l.get(sym.simp(z3.If(i < 0, l.len + i, i))))
        if name == 'list.__delitem__':
            self.builtin_delitem('list', self.sv(a[0], n), a[1], fr, n)
            return NONE
        if name == 'list.__contains__':
            return SV(sym.mk_bool(self.contains(IterV('pyseq', self.concrete_iter(IterV('list', h.l(sym.r_of(self.sv(a[0], n).t))), n, fr)), a[1], fr, n)))
        if name == 'list.pop':
            r = sym.r_of(self.sv(a[0], n).t)
            l = h.l(r)
            i = self.as_int(self.sv(a[1], n)) if len(a) > 1 else z3.IntVal(-1)
            self.maybe_raise(z3.And(-l.len <= i, i < l.len), 'IndexError', fr, n, 'list.pop')
            i = sym.simp(z3.If(i < 0, l.len + i, i))
            v = self.unbox(l.get(i))
            h.put_l(r, l.delete(i))
            return v
        if name == 'list.extend':
            r = sym.r_of(self.sv(a[0], n).t)
            for x in self.concrete_iter(a[1], n, fr):
                l = h.l(r)
                h.put_l(r, ListT(sym.simp(l.len + 1), z3.Store(l.item, l.len, self.store_val(x, n))))
            return NONE
        if name == 'list.__iter__':
            return IterV('list', h.l(sym.r_of(self.sv(a[0], n).t)))
        if name == 'list.index':
            r = sym.r_of(self.sv(a[0], n).t)
            l = h.l(r)
            idx = self.run.fresh('index', sym.I)
            vt = self.sv(a[1], n).t
            j = z3.Int('!ij')
            found = z3.And(0 <= idx, idx < l.len, z3.Select(l.item, idx) == vt,
                           z3.ForAll([j], z3.Implies(z3.And(0 <= j, j < idx), z3.Select(l.item, j) != vt)))
            ex = z3.Exists([j], z3.And(0 <= j, j < l.len, z3.Select(l.item, j) == vt))
            self.maybe_raise(ex, 'ValueError', fr, n, 'list.index')
            self.run.assume(found)
            return SV(sym.mk_int(idx))
        if name == 'dict.__init__':
            r = sym.r_of(self.sv(a[0], n).t)
            if len(a) == 1:
                h.put_m(r, MapT.empty())
            else:
                src = a[1]
                if isinstance(src, SV):
                    h.put_m(r, h.m(sym.r_of(src.t)))
                else:
                    m = MapT.empty()
                    for x in self.concrete_iter(src, n, fr):
                        k, v = self.unpack(x, 2, n, fr)
                        m = self.map_set_simpl(m, self.sv(k, n).t, self.store_val(v, n))
                    h.put_m(r, m)
            return NONE
        if name == 'dict.__setitem__':
            self.builtin_setitem('dict', self.sv(a[0], n), a[1], a[2], fr, n)
            return NONE
        if name == 'dict.__getitem__':
            r = sym.r_of(self.sv(a[0], n).t)
            m = h.m(r)
            kt = self.sv(a[1], n).t
            self.maybe_raise(m.has(kt), 'KeyError', fr, n, 'dict.__getitem__')
            return self.unbox(m.get(kt))
        if name == 'dict.__delitem__':
            self.builtin_delitem('dict', self.sv(a[0], n), a[1], fr, n)
            return NONE
        if name == 'dict.__contains__':
            return SV(sym.mk_bool(h.m(sym.r_of(self.sv(a[0], n).t)).has(self.sv(a[1], n).t)))
        if name == 'dict.clear':
            h.put_m(sym.r_of(self.sv(a[0], n).t), MapT.empty())
            return NONE
        if name == 'dict.get':
            m = h.m(sym.r_of(self.sv(a[0], n).t))
            kt = self.sv(a[1], n).t
            d = self.sv(a[2], n).t if len(a) > 2 else sym.NONE
            return self.unbox(sym.simp(z3.If(m.has(kt), m.get(kt), d)))
        if name == 'dict.pop':
            r = sym.r_of(self.sv(a[0], n).t)
            m = h.m(r)
            kt = self.sv(a[1], n).t
            if len(a) > 2:
                if self.run.decide(m.has(kt), 'dict.pop-present'):
                    v = self.unbox(m.get(kt))
                    h.put_m(r, m.delete(kt))
                    return v
                return a[2]
            self.maybe_raise(m.has(kt), 'KeyError', fr, n, 'dict.pop')
            v = self.unbox(m.get(kt))
            h.put_m(r, m.delete(kt))
            return v
        if name == 'dict.setdefault':
            r = sym.r_of(self.sv(a[0], n).t)
            m = h.m(r)
            kt = self.sv(a[1], n).t
            if self.run.decide(m.has(kt), 'dict.setdefault-present'):
                return self.unbox(m.get(kt))
            v = a[2] if len(a) > 2 else NONE
            h.put_m(r, self.map_set_simpl(m, kt, self.store_val(v, n)))
            return v
        if name in ('dict.items', 'dict.keys', 'dict.values'):
            return IterV(name.split('.')[1], h.m(sym.r_of(self.sv(a[0], n).t)))
        if name == 'dict.update':
            r = sym.r_of(self.sv(a[0], n).t)
            m = h.m(r)
            if len(a) > 1:
                m = self.map_update_from(m, a[1], n, fr)
            for k, v in kw.items():
                m = self.map_set_simpl(m, sym.mk_str(k), self.store_val(v, n))
            h.put_m(r, m)
            return NONE
        if name == 'dict.copy':
            r2 = self.run.alloc('dict')
            h.put_m(r2, h.m(sym.r_of(self.sv(a[0], n).t)))
            return SV(sym.mk_ref(r2), hint=frozenset(['dict']))
        if name == 'dict.__iter__':
            return IterV('keys', h.m(sym.r_of(self.sv(a[0], n).t)))
        if name in ('pset.add', 'set.add'):
            r = sym.r_of(self.sv(a[0], n).t)
            if isinstance(a[1], PathV):
                h.put('$pset', r, z3.Store(h.get('$pset', r), a[1].s, True))
            else:
                h.put('$set', r, z3.Store(h.get('$set', r), self.sv(a[1], n).t, True))
            return NONE
        if name == 'str.startswith':
            return SV(sym.mk_bool(sym.simp(z3.PrefixOf(sym.s_of(self.sv(a[1], n).t), sym.s_of(self.sv(a[0], n).t)))))
        if name == 'str.endswith':
            return SV(sym.mk_bool(sym.simp(z3.SuffixOf(sym.s_of(self.sv(a[1], n).t), sym.s_of(self.sv(a[0], n).t)))))
        if name in ('object.__setattr__',):
            self.heap.put(sym.py_of_val(self.sv(a[1], n).t), sym.r_of(self.sv(a[0], n).t), self.sv(a[2], n).t)
            return NONE
        if name in ('object.__init__',):
            return NONE
        return self.eng.call_builtin_ext(self, name, a, kw, n, fr, as_cm)


def _returns_constant(fi):
    """a function whose whole body is `return <literal>` (class-level constants written as static properties, e.g. is_leaf):
    executed from its source wherever it is called"""
    import ast
    body = [st for st in getattr(fi.node, 'body', []) if not (isinstance(st, ast.Expr) and isinstance(st.value, ast.Constant))]
    return len(body) == 1 and isinstance(body[0], ast.Return) and isinstance(body[0].value, ast.Constant)


def _named3(res, default):
    out = []
    if res is None:
        return out
    if not isinstance(res, (list, tuple)) or (isinstance(res, tuple) and res and isinstance(res[0], str)):
        res = [res]
    for x in res:
        if isinstance(x, tuple):
            if len(x) == 3:
                out.append(x)
            else:
                out.append((x[0], x[1], None))
        else:
            out.append((default, x, None))
    return out


def _named(res, default):
    return [(a, b) for a, b, _ in _named3(res, default)]


def _named_old(res, default):
    if res is None:
        return []
    if isinstance(res, (list, tuple)):
        out = []
        for x in res:
            if isinstance(x, tuple):
                out.append(x)
            else:
                out.append((default, x))
        return out
    return [(default, res)]
